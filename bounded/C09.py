"""Bounded stand-in for C09: the MOF compiler is total (success | MOFCompileError with a position | OSError).

Oracles are independent of the compiler: a hand-written MOF scanner (token starts, comments), reference
decoders for string/char/number literals and namespace names, constructs placed at known (line, column),
a scripted repository whose rejections are logged, and hand-written expectations for the probe MOF that
must still compile after every kind of failure.
"""
import os
import re
import ast
import sys
import random
import shutil
import tempfile
import warnings
import time
import traceback

from bounded.common import Run

warnings.simplefilter('ignore')

import pywbem  # noqa: E402
from pywbem import (MOFCompiler, MOFWBEMConnection, MOFCompileError, MOFParseError, MOFDependencyError,  # noqa: E402
                    MOFRepositoryError, CIMError, CIMInstanceName, CIMInstance, CIMClass)
from pywbem._mof_compiler import BaseRepositoryConnection  # noqa: E402
import pywbem._cim_constants as _K  # noqa: E402

R = Run('MOF text families through the real PLY driver: string/char16 escapes (every \\c for printable c, hex escapes of '
        '0..5 digits x 6 terminators, all pairs over a 13-piece alphabet) x 4 contexts; integer literals at the bounds '
        'of 8 types in 4 bases x 5 contexts + 23 malformed numbers + reals; 15 types x 19 initializer kinds x '
        'scalar/array x 6 contexts; 45 pragma-namespace parameters + 36 malformed pragmas; include graphs '
        '(self/mutual/3-cycle, chains of depth<=3 with the defect at each depth, missing file, directory, odd names) '
        'and 22 search-path dependency set-ups incl. cyclic/wrong files; 15 error kinds x 10 prefixes x 3 suffixes '
        'x string/file/include with the offending token at a known line/column; 66 hand-picked semantic errors; '
        'token drop/dup/swap/replace (30 substitutes; quick: 3) and prefix truncation at every offset (quick: every '
        '2nd) of an 8-snippet corpus (incl. every alternative of the class/property/reference/method/parameter declaration productions), thorough also every single-character delete/insert; seeded random token '
        'soup/skeletons/characters/splices (quick 1500, thorough 120000); a scripted repository rejecting 8 '
        'operations x call 1/2/all x 26 status codes x fresh/recompile/forced; the mock WBEM server connected in 3 '
        'ways; 19x19 pairs of failures followed by a valid file; after failures the same MOFCompiler must compile a '
        'probe correctly and report a later error at the right place; retry after fix on one reused MOFCompiler '
        '(MOFWBEMConnection, scripted repository, mock server direct and behind MOFWBEMConnection): 18 dependency '
        'failures (missing superclass / reference class of a property or parameter / EmbeddedInstance class / class '
        'inside an embedded value / qualifier declarations / class of an instance / include file / dependency, '
        'reference, instance-class and qualifier files that fail themselves / undefined alias / namespace pragma to '
        'a missing namespace) and one-time rejections of CreateClass, CreateInstance, SetQualifier (thorough also '
        'GetClass, EnumerateQualifiers) at call 1..2 (thorough 1..3) with 4 (thorough 8) status codes; fix by '
        'compiling the missing piece, by a file on the search path, directly in the repository, by adding the '
        'namespace or by accepting; then the same MOF, another MOF that uses the missing names, or a second different '
        'failure before the fix; the failing MOF as string, file, include at depth 1..2 or search-path dependency at '
        'depth 1..2; pairs of failures in two namespaces; ns=None; the repository compared with a compiler that '
        'never saw a failure (quick: a rotating 1/17 of the product beyond plain string retries)')

DEBUG = bool(os.environ.get('C09_DEBUG'))
QUICK = R.tier == 'quick'
RND = random.Random(R.seed)
CODES = sorted(getattr(_K, n) for n in dir(_K) if n.startswith('CIM_ERR_'))
_real_stdout = sys.stdout
sys.stdout = sys.stderr          # nothing but the final JSON line may reach stdout

MOFFILE = os.path.normcase(os.path.abspath(pywbem._mof_compiler.__file__))
_TMPBASE = '/dev/shm' if os.path.isdir('/dev/shm') else None
TMP = tempfile.mkdtemp(prefix='c09_', dir=_TMPBASE)
_LEXTAB_STRAY = os.path.join(tempfile.gettempdir(), '_moflextab.py')
_LEXTAB_EXISTED = os.path.exists(_LEXTAB_STRAY)


def dbg(*a):
    if DEBUG:
        print(*a, file=sys.stderr)


# ----------------------------------------------------------------------------------------------------------------
# independent scanner (written from DSP0004 annex A, not from the PLY rules)
# ----------------------------------------------------------------------------------------------------------------
_TOK = re.compile(r'''
    (?P<ws>[ \t\r\n]+)
  | (?P<lc>//[^\n]*)
  | (?P<bc>/\*.*?\*/)
  | (?P<str>"(?:[^"\\\n\r]|\\.)*")
  | (?P<chr>'(?:[^'\\\n\r]|\\.)+')
  | (?P<num>[+-]?(?:[0-9]*\.[0-9]+(?:[eE][+-]?[0-9]+)?|0[xX][0-9a-fA-F]+|[0-9]+[bB]?))
  | (?P<id>[A-Za-z_][A-Za-z_0-9]*)
  | (?P<p>.)
''', re.X | re.S)


def scan(text):
    """-> (tokens [(kind, start, end)], skip: set of offsets that are white space or inside a comment)."""
    toks, skip, i = [], set(), 0
    while i < len(text):
        m = _TOK.match(text, i)
        k = m.lastgroup
        if k in ('ws', 'lc', 'bc'):
            skip.update(range(m.start(), m.end()))
        else:
            toks.append((k, m.start(), m.end()))
        i = m.end()
    return toks, skip


def block_comment_newlines_before(text):
    """-> list: for each line number (1-based index) the number of newlines inside block comments that end before
    the start of that line (what a line counter that ignores them would be short by)."""
    out, lost, line = [0, 0], 0, 1
    i = 0
    while i < len(text):
        m = _TOK.match(text, i)
        seg = text[m.start():m.end()]
        for ch in seg:
            if ch == '\n':
                if m.lastgroup == 'bc':
                    lost += 1
                line += 1
                out.append(lost)
        i = m.end()
    return out


SIMPLE_ESC = {'b': '\b', 't': '\t', 'n': '\n', 'f': '\f', 'r': '\r', '"': '"', "'": "'", '\\': '\\'}
HEXD = '0123456789abcdefABCDEF'


def ref_decode(body, quote='"'):
    """Reference decoding of the body of a MOF string/char literal.
    -> (value | None if the literal is lexically invalid, info dict)."""
    out, i, info = [], 0, {'short_hex_at_end': False, 'sq_escape': False}
    while i < len(body):
        ch = body[i]
        if ch == quote or ch in '\n\r':
            return None, info
        if ch != '\\':
            out.append(ch)
            i += 1
            continue
        i += 1
        if i >= len(body):
            return None, info
        e = body[i]
        if e in SIMPLE_ESC:
            if e == "'":
                info['sq_escape'] = True
            out.append(SIMPLE_ESC[e])
            i += 1
        elif e in 'xX':
            j = i + 1
            while j < len(body) and j - i - 1 < 4 and body[j] in HEXD:
                j += 1
            if j == i + 1:
                return None, info
            if j == len(body) and j - i - 1 < 4:
                info['short_hex_at_end'] = True
            out.append(chr(int(body[i + 1:j], 16)))
            i = j
        else:
            return None, info
    return ''.join(out), info


def ref_int(lit):
    """Reference value of a MOF integer literal, None if it is not one."""
    m = re.fullmatch(r'([+-]?)(.*)', lit)
    sign, d = (-1 if m.group(1) == '-' else 1), m.group(2)
    if re.fullmatch(r'[01]+[bB]', d):
        return sign * int(d[:-1], 2)
    if re.fullmatch(r'0[xX][0-9a-fA-F]+', d):
        return sign * int(d[2:], 16)
    if re.fullmatch(r'0[0-7]+', d):
        return sign * int(d, 8)
    if re.fullmatch(r'[1-9][0-9]*|0', d):
        return sign * int(d)
    return None


INT_RANGE = {}
for _bits in (8, 16, 32, 64):
    INT_RANGE['uint%d' % _bits] = (0, 2 ** _bits - 1)
    INT_RANGE['sint%d' % _bits] = (-2 ** (_bits - 1), 2 ** (_bits - 1) - 1)


def ref_namespace(param):
    """Reference reading of a pragma namespace parameter: -> namespace name | None if not a plain namespace."""
    s = param
    if s.startswith('/') and not s.startswith('//'):
        s = s[1:]
    if not s:
        return None
    segs = s.split('/')
    for seg in segs:
        if not seg or not all(c.isalnum() or c == '_' for c in seg):
            return None
    return '/'.join(segs)


# ----------------------------------------------------------------------------------------------------------------
# repositories
# ----------------------------------------------------------------------------------------------------------------
class ScriptRepo(BaseRepositoryConnection):
    """A small complete repository that rejects scripted calls: plan[op] = (call index | 0 for all, status code)."""
    conn = None

    def __init__(self):
        self._ns = 'root/cimv2'
        self.reset()

    def reset(self, plan=None):
        self.cls, self.qual, self.inst = {}, {}, {}
        self.arm(plan)

    def arm(self, plan=None):
        self.plan, self.calls, self.fired = dict(plan or {}), {}, []

    def _g(self):
        return self._ns

    def _s(self, v):
        self._ns = v

    default_namespace = property(_g, _s)

    def _hit(self, op):
        n = self.calls[op] = self.calls.get(op, 0) + 1
        p = self.plan.get(op)
        if p and p[0] in (0, n):
            self.fired.append((op, p[1]))
            raise CIMError(p[1], 'scripted rejection of %s call %d' % (op, n))

    @staticmethod
    def _arg(args, kwargs, name):
        return args[0] if args else kwargs[name]

    missing_ns = frozenset()      # namespaces this repository does not have (every other one exists)

    def _nsof(self, args, kwargs, pos=1):
        ns = args[pos] if len(args) > pos else (kwargs.get('namespace') or self._ns)
        if ns in self.missing_ns:
            raise CIMError(_K.CIM_ERR_INVALID_NAMESPACE, ns)
        return ns

    def GetClass(self, *args, **kwargs):
        self._hit('GetClass')
        return self._getclass(self._arg(args, kwargs, 'ClassName'), self._nsof(args, kwargs),
                              kwargs.get('LocalOnly', True))

    def _getclass(self, name, ns, localonly=True):
        try:
            cc = self.cls[ns][name.lower()]
        except KeyError:
            raise CIMError(_K.CIM_ERR_NOT_FOUND, name)
        cc = cc.copy()
        if not localonly and cc.superclass:
            sup = self._getclass(cc.superclass, ns, False)
            for p in sup.properties.values():
                if p.name not in cc.properties:
                    cc.properties[p.name] = p
            for m in sup.methods.values():
                if m.name not in cc.methods:
                    cc.methods[m.name] = m
        return cc

    def CreateClass(self, *args, **kwargs):
        self._hit('CreateClass')
        cc, ns = self._arg(args, kwargs, 'NewClass'), self._nsof(args, kwargs)
        d = self.cls.setdefault(ns, {})
        if cc.classname.lower() in d:
            raise CIMError(_K.CIM_ERR_ALREADY_EXISTS, cc.classname)
        if cc.superclass and cc.superclass.lower() not in d:
            raise CIMError(_K.CIM_ERR_INVALID_SUPERCLASS, cc.superclass)
        objs = list(cc.properties.values())
        for m in cc.methods.values():
            objs += list(m.parameters.values())
        for o in objs:
            if o.type == 'reference' and o.reference_class.lower() not in d and \
                    o.reference_class.lower() != cc.classname.lower():
                raise CIMError(_K.CIM_ERR_INVALID_PARAMETER, o.reference_class)
            if o.type == 'string' and 'embeddedinstance' in o.qualifiers:
                ei = o.qualifiers['embeddedinstance'].value
                if ei is not None and ei.lower() not in d and ei.lower() != cc.classname.lower():
                    raise CIMError(_K.CIM_ERR_INVALID_PARAMETER, ei)
        d[cc.classname.lower()] = cc.copy()

    def ModifyClass(self, *args, **kwargs):
        self._hit('ModifyClass')
        cc, ns = self._arg(args, kwargs, 'ModifiedClass'), self._nsof(args, kwargs)
        d = self.cls.setdefault(ns, {})
        if cc.classname.lower() not in d:
            raise CIMError(_K.CIM_ERR_NOT_FOUND, cc.classname)
        d[cc.classname.lower()] = cc.copy()

    def DeleteClass(self, *args, **kwargs):
        self._hit('DeleteClass')
        self.cls.get(self._nsof(args, kwargs), {}).pop(self._arg(args, kwargs, 'ClassName').lower(), None)

    def _path(self, inst, ns):
        cc = self._getclass(inst.classname, ns, False)
        kb = {}
        for p in cc.properties.values():
            if 'key' in p.qualifiers and p.name in inst.properties:
                kb[p.name] = inst.properties[p.name].value
        return CIMInstanceName(inst.classname, keybindings=kb, namespace=ns)

    def CreateInstance(self, *args, **kwargs):
        self._hit('CreateInstance')
        inst, ns = self._arg(args, kwargs, 'NewInstance'), self._nsof(args, kwargs)
        path = self._path(inst, ns)
        d = self.inst.setdefault(ns, {})
        if path in d:
            raise CIMError(_K.CIM_ERR_ALREADY_EXISTS, str(path))
        new = inst.copy()
        new.path = path
        d[path] = new
        return path.copy()

    def ModifyInstance(self, *args, **kwargs):
        self._hit('ModifyInstance')
        inst = self._arg(args, kwargs, 'ModifiedInstance')
        d = self.inst.setdefault(inst.path.namespace, {})
        if inst.path not in d:
            raise CIMError(_K.CIM_ERR_NOT_FOUND, str(inst.path))
        d[inst.path] = inst.copy()

    def DeleteInstance(self, *args, **kwargs):
        self._hit('DeleteInstance')
        path = self._arg(args, kwargs, 'InstanceName')
        self.inst.get(path.namespace, {}).pop(path, None)

    def EnumerateInstanceNames(self, *args, **kwargs):
        self._hit('EnumerateInstanceNames')
        name, ns = self._arg(args, kwargs, 'ClassName'), self._nsof(args, kwargs)
        return [p.copy() for p in self.inst.get(ns, {}) if p.classname.lower() == name.lower()]

    def EnumerateQualifiers(self, *args, **kwargs):
        self._hit('EnumerateQualifiers')
        return [q.copy() for q in self.qual.get(self._nsof(args, kwargs, 0), {}).values()]

    def GetQualifier(self, *args, **kwargs):
        self._hit('GetQualifier')
        name = self._arg(args, kwargs, 'QualifierName')
        try:
            return self.qual[self._nsof(args, kwargs)][name.lower()].copy()
        except KeyError:
            raise CIMError(_K.CIM_ERR_NOT_FOUND, name)

    def SetQualifier(self, *args, **kwargs):
        self._hit('SetQualifier')
        q = self._arg(args, kwargs, 'QualifierDeclaration')
        self.qual.setdefault(self._nsof(args, kwargs), {})[q.name.lower()] = q.copy()

    def DeleteQualifier(self, *args, **kwargs):
        self._hit('DeleteQualifier')
        name = self._arg(args, kwargs, 'QualifierName')
        self.qual.get(self._nsof(args, kwargs), {}).pop(name.lower(), None)

    # uniform read access for the checks
    def view_class(self, ns, name):
        return self.cls.get(ns, {}).get(name.lower())

    def view_instances(self, ns):
        return list(self.inst.get(ns, {}).values())


class MofRepoView:
    """Uniform read access to a MOFWBEMConnection (public attributes classes/instances)."""

    def __init__(self, handle):
        self.h = handle

    def view_class(self, ns, name):
        try:
            return self.h.classes[ns][name]
        except KeyError:
            return None

    def view_instances(self, ns):
        return list(self.h.instances.get(ns, []))


class FakedView:
    def __init__(self, conn):
        self.c = conn

    def view_class(self, ns, name):
        try:
            return self.c.GetClass(name, namespace=ns, LocalOnly=True, IncludeQualifiers=True)
        except CIMError:
            return None

    def view_instances(self, ns):
        out = []
        try:
            for cn in self.c.EnumerateClassNames(namespace=ns, DeepInheritance=True):
                out += [i for i in self.c.EnumerateInstances(cn, namespace=ns, DeepInheritance=False)
                        if i.classname.lower() == cn.lower()]
        except CIMError:
            pass
        return out


# ----------------------------------------------------------------------------------------------------------------
# environments (one MOFCompiler object is reused for many cases: every later case runs "after failed compiles")
# ----------------------------------------------------------------------------------------------------------------
_NS = [0]


def new_ns():
    _NS[0] += 1
    return 'n%d' % _NS[0]


class MockComp:
    """compile_string/compile_file against the mock WBEM server; the target namespace is created first (the
    documented precondition of compile_mof_string)."""

    def __init__(self, conn, inner, search_paths):
        self.conn, self.inner, self.search_paths = conn, inner, search_paths
        for ns in ('m/x', 'a', 'b', 'other'):
            conn.add_namespace(ns)

    def _ensure(self, ns):
        if ns and ns not in self.conn.namespaces:
            self.conn.add_namespace(ns)

    def compile_string(self, mof, ns, filename=None):
        self._ensure(ns)
        if self.inner is not None:
            return self.inner.compile_string(mof, ns, filename)
        return self.conn.compile_mof_string(mof, namespace=ns, search_paths=self.search_paths)

    def compile_file(self, path, ns):
        self._ensure(ns)
        if self.inner is not None:
            return self.inner.compile_file(path, ns)
        return self.conn.compile_mof_file(path, namespace=ns, search_paths=self.search_paths)


class Env:
    def __init__(self, kind, search_paths=None):
        self.kind, self.search_paths = kind, search_paths
        self.fresh()

    def fresh(self):
        if self.kind == 'mof':
            h = MOFWBEMConnection()
            self.comp = MOFCompiler(h, search_paths=self.search_paths, log_func=None)
            self.view = MofRepoView(h)
        elif self.kind == 'none':
            self.comp = MOFCompiler(None, search_paths=self.search_paths, log_func=None)
            self.view = MofRepoView(self.comp.handle)
        elif self.kind == 'script':
            self.repo = ScriptRepo()
            self.comp = MOFCompiler(self.repo, search_paths=self.search_paths, log_func=None)
            self.view = self.repo
        else:
            from pywbem_mock import FakedWBEMConnection
            conn = FakedWBEMConnection()
            if self.kind == 'faked':            # FakedWBEMConnection.compile_mof_string/file (a compiler per call)
                inner = None
            elif self.kind == 'faked-direct':   # MOFCompiler(handle=WBEMConnection)
                inner = MOFCompiler(conn, search_paths=self.search_paths, log_func=None)
            else:                               # 'faked-cached': MOFCompiler(MOFWBEMConnection(conn)), the rollback set-up
                inner = MOFCompiler(MOFWBEMConnection(conn), search_paths=self.search_paths, log_func=None)
            self.comp = MockComp(conn, inner, self.search_paths)
            # MOFWBEMConnection keeps what it compiles in its own store (until rollback), not in the server
            self.view = MofRepoView(inner.handle) if self.kind == 'faked-cached' else FakedView(conn)
        self.failures = 0

    def quiet(self):
        if self.kind == 'script':
            self.repo.plan = {}


def attempt(fn):
    """-> ('ok', rv) | ('mce', e) | ('os', e) | ('esc', e)"""
    try:
        return 'ok', fn()
    except MOFCompileError as e:
        return 'mce', e
    except OSError as e:
        return 'os', e
    except RecursionError as e:
        return 'esc', e
    except Exception as e:  # noqa
        return 'esc', e


def signature(e):
    if isinstance(e, RecursionError):
        return 'RecursionError', '(deep)', None      # walking a 1000-frame traceback is slow and tells nothing
    try:
        tb = traceback.extract_tb(e.__traceback__, limit=-60)
    except Exception:  # noqa
        tb = []
    mof = [f.name for f in tb if os.path.normcase(os.path.abspath(f.filename)) == MOFFILE]
    prod = next((n for n in reversed(mof) if n.startswith(('p_', 't_'))), None)
    inner = mof[-1] if mof else None
    return type(e).__name__, prod or inner or (tb[-1].name if tb else '?'), inner


def _strings_of(text):
    out = []
    for k, s, e in scan(text)[0]:
        if k == 'str':
            out.append(ref_decode(text[s + 1:e - 1]))
    return out


def pred_ns_invalid(texts):
    return any(v is not None and ref_namespace(v) is None for t in texts for v, _ in _strings_of(t))


def pred_short_hex(texts):
    return any(i['short_hex_at_end'] for t in texts for _, i in _strings_of(t))


MISMATCH_V = (r'out of range for CIM datatype|invalid literal for int\(\) with base|could not convert string to float|'
              r'Invalid format of CIM datetime value|The is_array parameter of .* but value|'
              r'Invalid format for an instance path in WBEM URI|WBEM URI has an invalid format|'
              r'specifies reference_class .* but is an array|specifies embedded_object')
MISMATCH_T = (r"dtarg argument .* has an invalid type|Input value has invalid type for a CIM reference|"
              r"^(int|float)\(\) argument must be a string.* not '(CIMInstanceName|CIMClass)'")

# (exception type, production regex, message regex, known id, predicate name | None)
KNOWN_ESCAPES = [
    ('AttributeError', r'p_compilerDirective$', r"'NoneType' object has no attribute 'group'",
     'known:pragma-namespace-unparsable-param-AttributeError', 'ns_invalid'),
    ('IndexError', r'p_(stringValueList|pragmaParameter)$', r'string index out of range',
     'known:string-hex-escape-shorter-than-4-at-end-IndexError', 'short_hex'),
    ('ValueError', r'p_propertyDeclaration_\d$', MISMATCH_V,
     'known:class-property-default-mismatch-ValueError', None),
    ('TypeError', r'p_propertyDeclaration_\d$', MISMATCH_T,
     'known:class-property-default-mismatch-TypeError', None),
    ('ValueError', r'p_referenceDeclaration$', MISMATCH_V,
     'known:reference-default-mismatch-ValueError', None),
    ('TypeError', r'p_referenceDeclaration$', MISMATCH_T,
     'known:reference-default-mismatch-TypeError', None),
    ('ValueError', r'p_qualifierDeclaration$', MISMATCH_V,
     'known:qualifier-declaration-default-mismatch-ValueError', None),
    ('TypeError', r'p_qualifierDeclaration$', MISMATCH_T,
     'known:qualifier-declaration-default-mismatch-TypeError', None),
    ('ValueError', r'p_qualifier$', MISMATCH_V, 'known:qualifier-value-mismatch-ValueError', None),
    ('TypeError', r'p_qualifier$', MISMATCH_T, 'known:qualifier-value-mismatch-TypeError', None),
    ('TypeError', r'p_instanceDeclaration$', MISMATCH_T, 'known:instance-value-mismatch-TypeError', None),
    ('TypeError', r'p_instanceDeclaration$', r"'NoneType' object is not iterable",
     'known:nested-embedded-instance-value-TypeError', 'nested_embedded'),
    ('TypeError', r'p_instanceDeclaration$', r"^'(int|bool|float)' object is not subscriptable",
     'known:embedded-property-value-not-a-string-TypeError', None),
    ('RuntimeError', r'p_instanceDeclaration$', r'^No input string given with input\(\)',
     'known:embedded-property-array-value-with-null-element-RuntimeError', None),
    ('TypeError', r'p_instanceDeclaration$', r"^int\(\) argument must be .* not 'CIMInstance'",
     'known:embedded-qualifier-on-integer-property-TypeError', None),
    ('AttributeError', r'p_mp_createClass$', r"^'(int|bool|float)' object has no attribute 'lower'",
     'known:embeddedinstance-qualifier-value-not-a-string-AttributeError', None),
    ('ValueError', r'p_mp_createInstance$', r"^Key '.*' in the new keybindings .* is 'None'",
     'known:instance-with-null-key-value-ValueError', None),
    ('TypeError', r'p_mp_createInstance$', r"^Value of keybinding '.*' cannot be a list",
     'known:instance-with-array-key-value-TypeError', None),
    ('AttributeError', r'p_(mp_setQualifier|mp_createClass|qualifier)$',
     r"^'NoneType' object has no attribute 'create_namespace'",
     'known:invalid-namespace-status-from-repository-without-connection-AttributeError', 'hint:repo'),
    ('CIMError', r'p_mp_setQualifier$', r'scripted rejection of (SetQualifier|DeleteQualifier)',
     'known:setqualifier-retry-or-deletequalifier-CIMError-not-translated', 'hint:repo'),
    # the same defect with the DeleteQualifier of MOFWBEMConnection (not implemented) and of the mock server (called
    # without namespace= it looks into the default namespace) after a scripted SetQualifier rejection
    ('CIMError', r'p_mp_setQualifier$', r"This should not happen!|QualifierDeclaration '.*' not found in namespace",
     'known:setqualifier-retry-or-deletequalifier-CIMError-not-translated', 'hint:reject'),
    ('AttributeError', r'p_mp_createClass$', r"^'NoneType' object has no attribute 'lower'",
     'known:invalid-superclass-status-for-class-without-superclass-AttributeError', 'hint:repo'),
    ('ValueError', r'p_mp_createInstance$', r'^cannot switch from manual field specification to automatic',
     'known:existing-instance-without-key-values-message-format-ValueError', None),
    ('ModelError', r'p_(mp_setQualifier|mp_createClass|qualifier)$', r'^Interop namespace does not exist',
     'known:namespace-pragma-to-missing-namespace-on-mock-server-ModelError', 'hint:mock'),
    ('AssertionError', r'p_mp_createClass$', r'^$',
     'known:superclass-file-does-not-define-the-superclass-AssertionError', 'hint:depfile-wrong'),
    ('CIMError', r'p_instanceDeclaration$', r'CIM_ERR_NOT_FOUND',
     'known:instance-class-file-does-not-define-the-class-CIMError', 'hint:depfile-wrong'),
]


def classify_escape(e, texts, hints):
    tname, prod, inner = signature(e)
    msg = str(e)
    if isinstance(e, RecursionError):
        if 'cyclic' in hints:
            return 'known:cyclic-include-or-dependency-file-RecursionError'
        return 'escape-RecursionError'
    for ktype, kprod, kmsg, kid, pred in KNOWN_ESCAPES:
        if ktype == tname and re.search(kprod, prod or '') and re.search(kmsg, msg):
            if pred == 'ns_invalid' and not pred_ns_invalid(texts):
                continue
            if pred == 'short_hex' and not pred_short_hex(texts):
                continue
            if pred == 'nested_embedded' and not any(
                    v and '"' in v and 'instance' in v.lower() for t in texts for v, _ in _strings_of(t)):
                continue
            if pred and pred.startswith('hint:') and pred[5:] not in hints:
                continue
            if kid == 'known:setqualifier-retry-or-deletequalifier-CIMError-not-translated' and 'setq-other-code' in hints:
                continue
            return kid
    return 'escape-%s-in-%s' % (tname, prod)


LEXICAL_MSG = re.compile(r'^(MOF grammar error|Illegal character |Invalid binary number |Invalid octal number )')


def locate(text, ln, col, want_char=None):
    """Independent reading of a reported position. -> 'exact' | 'first-line' | 'block-comment' | None"""
    lines = text.split('\n')
    _, skip = scan(text)
    starts = [0]
    for line in lines[:-1]:
        starts.append(starts[-1] + len(line) + 1)

    def at(l, c):
        if not (1 <= l <= len(lines)) or not (0 <= c < len(lines[l - 1])):
            return False
        if starts[l - 1] + c in skip:
            return False
        return want_char is None or lines[l - 1][c] == want_char

    if at(ln, col) or at(ln, col - 1):
        return 'exact'
    if ln == 1 and at(1, col + 1):
        return 'first-line'
    lost = block_comment_newlines_before(text)
    for l2 in range(ln + 1, len(lines) + 1):
        if lost[l2] == l2 - ln and (at(l2, col) or at(l2, col - 1)):
            return 'block-comment'
    return None


def check_position(e, text, files, hints, detail):
    """The position carried by a MOFCompileError lies inside the offending input (generic part)."""
    ln, col, fil = e.lineno, e.column, e.file
    msg = e.msg or ''
    if ln is None or col is None:
        if msg == 'Unexpected end of MOF':
            R.violation('known:unexpected-end-of-MOF-error-has-no-position', msg=msg, **detail)
        elif re.match(r'Invalid compile of CIM(Class|QualifierDeclaration)|Property .* embedded', msg):
            R.violation('known:embedded-value-mode-error-has-no-position', msg=msg[:120], **detail)
        else:
            R.violation('error-without-position', msg=msg[:200], etype=type(e).__name__, **detail)
        return
    if not isinstance(ln, int) or not isinstance(col, int) or isinstance(ln, bool):
        R.violation('position-not-integers', lineno=repr(ln), column=repr(col), **detail)
        return
    cands = []
    if fil is None:
        if text is not None:
            cands.append(text)
        for t in list(cands) + list(files.values()):
            for v, _ in _strings_of(t):
                if v and ('instance' in v.lower() or 'class' in v.lower() or 'embedded' in hints):
                    cands.append(v)          # position inside an embedded-object MOF string
        if text is None:
            if 'embedded' in hints and len(cands) > 0:
                R.violation('known:error-inside-embedded-value-of-a-file-reports-no-file', msg=msg[:120], lineno=ln,
                            column=col, **detail)
            else:
                R.violation('error-in-file-reports-no-file', msg=msg[:120], lineno=ln, column=col, **detail)
                return
    else:
        if fil in files:
            cands.append(files[fil])
        elif isinstance(fil, str) and os.path.isfile(fil):
            with open(fil, encoding='utf-8') as f:
                cands.append(f.read())
        else:
            R.violation('error-file-is-not-an-input-file', file=repr(fil), msg=msg[:120], **detail)
            return
    lexical = bool(LEXICAL_MSG.match(msg))
    want = None
    m = re.match(r'Illegal character (.+)$', msg, re.S)
    if m:
        try:
            want = ast.literal_eval(m.group(1))
        except Exception:  # noqa
            want = None
    best = None
    for t in cands:
        lines = t.split('\n')
        if lexical:
            r = locate(t, ln, col, want)
        else:
            r = 'exact' if (1 <= ln <= len(lines) and 0 <= col <= max(len(x) for x in lines) + 1) else None
        if r == 'exact':
            best = r
            break
        best = best or r
    if best == 'exact':
        return
    if best == 'first-line':
        R.violation('known:column-one-less-on-first-line', lineno=ln, column=col, msg=msg[:80], **detail)
    elif best == 'block-comment':
        R.violation('known:lineno-ignores-newlines-inside-block-comments', lineno=ln, column=col, msg=msg[:80],
                    **detail)
    elif lexical:
        R.violation('position-not-at-offending-token', lineno=ln, column=col, msg=msg[:120], file=fil, **detail)
    else:
        R.violation('position-outside-input', lineno=ln, column=col, msg=msg[:120], file=fil, **detail)


def check_exception_shape(e, detail):
    if not isinstance(e, pywbem.Error) or not isinstance(e, MOFCompileError):
        R.violation('error-not-a-pywbem-Error', etype=type(e).__name__, **detail)
    try:
        s = str(e)
        if not isinstance(s, str) or not s:
            R.violation('error-str-empty', etype=type(e).__name__, **detail)
    except Exception as x:  # noqa
        R.violation('error-str-raises-' + type(x).__name__, etype=type(e).__name__, **detail)
    c = e.context
    if c is not None and not (isinstance(c, list) and all(isinstance(x, str) for x in c)):
        R.violation('error-context-malformed', context=repr(c)[:200], **detail)
    if isinstance(e, MOFRepositoryError) and e.cim_error is not None and not isinstance(e.cim_error, CIMError):
        R.violation('repository-error-cim_error-not-CIMError', **detail)


# ----------------------------------------------------------------------------------------------------------------
# the probe: valid MOF that must compile correctly on the same MOFCompiler after a failure
# ----------------------------------------------------------------------------------------------------------------
QKEY = 'Qualifier Key : boolean = false, Scope(property, reference), Flavor(DisableOverride, ToSubclass);\n'
QASSOC = 'Qualifier Association : boolean = false, Scope(association), Flavor(DisableOverride, ToSubclass);\n'
PROBE = QKEY + QASSOC + '''class PR_A { [Key] uint32 id; string s = "p\\x41\\n"; sint16 n[] = {-1, 2}; boolean b = true; };
class PR_C : PR_A { uint8 extra; };
[Association] class PR_B { [Key] PR_A ref r; [Key] PR_A ref q; };
instance of PR_A as $pr { id = 7; s = "v"; };
instance of PR_C as $pc { id = 9; extra = 1; };
instance of PR_B { r = $pr; q = $pc; };
'''
PROBE_BAD = 'class PB {\n  uint8 p;\n   @\n};\n'


def verify_probe(view, ns):
    """Hand-written expectation of what PROBE creates. -> None | reason"""
    a, b = view.view_class(ns, 'PR_A'), view.view_class(ns, 'PR_B')
    if not isinstance(a, CIMClass) or not isinstance(b, CIMClass):
        return 'class missing'
    pa = a.properties
    if [p.lower() for p in pa.keys()] != ['id', 's', 'n', 'b']:
        return 'PR_A properties %r' % list(pa.keys())
    if (pa['id'].type, pa['s'].type, pa['n'].type, pa['b'].type) != ('uint32', 'string', 'sint16', 'boolean'):
        return 'PR_A types'
    if pa['s'].value != 'pA\n' or pa['n'].value != [-1, 2] or pa['n'].is_array is not True or pa['b'].value is not True:
        return 'PR_A defaults %r %r %r' % (pa['s'].value, pa['n'].value, pa['b'].value)
    if 'key' not in pa['id'].qualifiers or pa['id'].qualifiers['key'].value is not True:
        return 'PR_A key qualifier'
    c = view.view_class(ns, 'PR_C')
    if not isinstance(c, CIMClass) or (c.superclass or '').lower() != 'pr_a' or 'extra' not in c.properties:
        return 'PR_C shape'
    if b.superclass or sorted(k.lower() for k in b.properties.keys()) != ['q', 'r'] or \
            any(p.type != 'reference' or (p.reference_class or '').lower() != 'pr_a' for p in b.properties.values()):
        return 'PR_B shape'
    if 'association' not in b.qualifiers or b.qualifiers['association'].value is not True:
        return 'PR_B association qualifier'
    insts = view.view_instances(ns)
    by = {}
    for i in insts:
        by.setdefault(i.classname.lower(), []).append(i)
    if sorted((k, len(v)) for k, v in by.items()) != [('pr_a', 1), ('pr_b', 1), ('pr_c', 1)]:
        return 'instances %r' % sorted((k, len(v)) for k, v in by.items())
    ia, ib, ic = by['pr_a'][0], by['pr_b'][0], by['pr_c'][0]
    if ia.properties['id'].value != 7 or ia.properties['s'].value != 'v':
        return 'PR_A instance values'
    if ic.properties['id'].value != 9 or ic.properties['extra'].value != 1:
        return 'PR_C instance values'
    for pn, cn, idv in (('r', 'pr_a', 7), ('q', 'pr_c', 9)):
        r = ib.properties[pn].value if pn in ib.properties else None
        if not isinstance(r, CIMInstanceName) or r.classname.lower() != cn or \
                [(k.lower(), v) for k, v in r.keybindings.items()] != [('id', idv)]:
            return 'PR_B instance reference %s = %r' % (pn, r)
    return None


_PROBE_SEEN = set()
_BUDGET = {'probe_failures': 0, 'repro': 0}


def probe(env, after, detail, force=False):
    """After a failed compile the same MOFCompiler compiles valid MOF correctly, and reports a later error
    at the right place (file None for a string)."""
    env.failures += 1
    if not force and after in _PROBE_SEEN and env.failures % 7:
        return
    if _BUDGET['probe_failures'] > 25:       # broken everywhere: already reported, keep the run time bounded
        return
    _PROBE_SEEN.add(after)
    env.quiet()
    ns = new_ns()
    kind, x = attempt(lambda: env.comp.compile_string(PROBE, ns))
    why = None
    if kind != 'ok':
        why = '%s: %s' % (type(x).__name__, str(x)[:160])
    else:
        why = verify_probe(env.view, ns)
    if why:
        R.violation('valid-MOF-fails-after-' + after, why=why, **detail)
        _BUDGET['probe_failures'] += 1
        env.fresh()
        return
    kind, x = attempt(lambda: env.comp.compile_string(PROBE_BAD, new_ns()))
    if kind != 'mce' or not isinstance(x, MOFParseError) or x.file is not None or x.lineno != 3 or \
            x.column not in (3, 4) or 'Illegal character' not in (x.msg or ''):
        R.violation('later-error-misreported-after-' + after,
                    observed='%s %r' % (kind, (getattr(x, 'lineno', None), getattr(x, 'column', None),
                                               getattr(x, 'file', None), str(x)[:80])), **detail)
        _BUDGET['probe_failures'] += 1
        env.fresh()


def after_tag(kind, x, vid=None):
    if kind == 'mce':
        return type(x).__name__
    if kind == 'os':
        return 'OSError'
    return (vid or ('escape-' + type(x).__name__)).replace('known:', '')


# ----------------------------------------------------------------------------------------------------------------
# one case
# ----------------------------------------------------------------------------------------------------------------
def case(env, fam, key, text=None, ns=None, run=None, files=None, hints=(), expect='any', on_ok=None, extra=None,
         force=False):
    """Run one compile and apply the generic oracle. expect: 'any' | 'ok' | 'error'. -> (kind, x, ns)"""
    R.case((fam, key))
    ns = ns or new_ns()
    files = files or {}
    hints = set(hints)
    fn = run or (lambda: env.comp.compile_string(text, ns))
    kind, x = attempt(fn)
    detail = dict(family=fam, ns=ns, repo=env.kind)
    if text is not None:
        detail['mof'] = text if len(text) <= 900 else text[:900] + '...'
    if files:
        detail['files'] = {os.path.relpath(k, TMP): (v if len(v) < 300 else v[:300] + '...') for k, v in files.items()}
    if extra:
        detail.update(extra)
    texts = ([text] if text is not None else []) + list(files.values())
    if kind == 'ok':
        if expect == 'error':
            R.violation('invalid-input-accepted-' + fam, **detail)
        elif on_ok is not None:
            why = on_ok(ns)
            if why:
                vid, why = why if isinstance(why, tuple) else ('compiled-result-wrong-' + fam, why)
                R.violation(vid, why=why, **detail)
        return kind, x, ns
    if kind == 'mce':
        check_exception_shape(x, detail)
        check_position(x, text, files, hints, detail)
        if expect == 'ok':
            R.violation('valid-input-rejected-' + fam, error=str(x)[:300], **detail)
        probe(env, after_tag(kind, x), detail, force)
        return kind, x, ns
    if kind == 'os':
        if expect == 'ok' or not ('file' in hints or any('include' in t.lower() for t in texts)):
            R.violation('unexpected-OSError-' + fam, error='%s: %s' % (type(x).__name__, str(x)[:200]), **detail)
        probe(env, after_tag(kind, x), detail, force)
        return kind, x, ns
    vid = classify_escape(x, texts, hints)
    d2 = dict(detail, etype=type(x).__name__, emsg=str(x)[:200], raised_in=signature(x)[1])
    if not vid.startswith('known:') and run is None and _BUDGET['repro'] < 25:
        _BUDGET['repro'] += 1
        e2 = Env(env.kind, env.search_paths)
        k2, x2 = attempt(lambda: e2.comp.compile_string(text, ns))
        d2['reproduces_on_fresh_compiler'] = (k2 == 'esc' and type(x2) is type(x))
    if DEBUG:
        dbg('ESC', vid, '|', str(x)[:100].replace('\n', ' '), '|', repr(text)[-120:] if text else key)
    R.violation(vid, **d2)
    probe(env, after_tag(kind, x, vid), detail, force)
    return kind, x, ns


QUALS = (QKEY +
         'Qualifier Description : string = null, Scope(any), Flavor(EnableOverride, ToSubclass, Translatable);\n'
         'Qualifier Association : boolean = false, Scope(association), Flavor(DisableOverride, ToSubclass);\n'
         'Qualifier In : boolean = true, Scope(parameter), Flavor(DisableOverride, ToSubclass);\n'
         'Qualifier EmbeddedInstance : string, Scope(property, method, parameter);\n')


# ----------------------------------------------------------------------------------------------------------------
# F1: string and char16 literals against the reference decoder
# ----------------------------------------------------------------------------------------------------------------
def string_bodies():
    out = []
    for c in range(0x20, 0x7f):
        out.append('\\' + chr(c))
        out.append('a\\' + chr(c) + 'b')
    for x in 'xX':
        for digits in ('', '4', '41', '041', '0041', '00041', 'fF', 'g'):
            for suffix in ('', 'g', ' ', '\\n', 'F', '\\x42'):
                for prefix in ('', 'ab'):
                    out.append(prefix + '\\' + x + digits + suffix)
    out += ['', 'abc\\', '\\', '\\\\\\', '\t', 'é', '\U0001F600', '\x7f', '\x00', 'a\rb', 'a\nb', '\\x0', '\\x0000',
            '\\xFFFF', '\\xD800', 'a' * 3000, '\\x41' * 500]
    alpha = ['a', '\\"', '\\\\', '\\x41', "\\'", "'", 'é', '\\x1', '\\n', ' ', '/*', '//', '*/']
    for p in alpha:
        for q in alpha:
            out.append(p + q)
    seen, res = set(), []
    for b in out:
        if b not in seen:
            seen.add(b)
            res.append(b)
    return res


def f_strings(env):
    bodies = string_bodies()
    ctxs = ['prop', 'qprop', 'qual', 'inst']
    for bi, body in enumerate(bodies):
        ref, info = ref_decode(body)
        for ctx in ctxs:
            if QUICK and ctx in ('qual', 'inst') and bi % 3:
                continue
            lit = '"' + body + '"'
            if ctx == 'prop':
                text = 'class S { string s = %s; };\n' % lit
            elif ctx == 'qprop':
                text = QUALS + 'class S { [Key] string s = %s; };\n' % lit
            elif ctx == 'qual':
                text = QUALS + '[Description(%s)] class S { string s; };\n' % lit
            else:
                text = QUALS + 'class S { [Key] uint8 k; string s; };\ninstance of S { k = 1; s = %s; };\n' % lit

            def on_ok(ns, ctx=ctx, ref=ref, info=info):
                c = env.view.view_class(ns, 'S')
                if c is None:
                    return 'class S missing'
                if ctx in ('prop', 'qprop'):
                    got = c.properties['s'].value
                elif ctx == 'qual':
                    got = c.qualifiers['Description'].value
                else:
                    ii = env.view.view_instances(ns)
                    if len(ii) != 1:
                        return 'instance missing'
                    got = ii[0].properties['s'].value if 's' in ii[0].properties else None
                if ctx == 'inst' and ref == '' and got in (None, ''):
                    return None
                if got == ref:
                    return None
                if info['sq_escape'] and got == ref_decode(body.replace("\\'", ''))[0]:
                    return 'known:string-escaped-single-quote-dropped', 'got %r expected %r' % (got, ref)
                return 'string-value-differs', 'got %r expected %r' % (got[:80] if got else got, ref[:80])

            case(env, 'string', (ctx, body), text, expect='error' if ref is None else 'ok', on_ok=on_ok)
    # concatenation
    for bi, (lit, ref) in enumerate([('"a" "b"', 'ab'), ('"a"\n   "b"\n"c"', 'abc'), ('"a" /* c */ "b"', 'ab'),
                                     ('"a" // c\n "b"', 'ab'), ('"" ""', ''), ('"\\x4" "1"', '\x041')]):
        def on_ok(ns, ref=ref):
            got = env.view.view_class(ns, 'S').properties['s'].value
            return None if got == ref else ('string-value-differs', 'got %r expected %r' % (got, ref))
        case(env, 'string', ('concat', bi), 'class S { string s = %s; };\n' % lit, expect='ok', on_ok=on_ok)
    # char16
    for body in ['a', '\\x41', '\\n', "\\'", '"', 'é', '', 'ab', '\\q', '\\x', '\\\\', ' ', '\\x00041', "'"]:
        ref, info = ref_decode(body, "'")
        if ref is not None and len(ref) != 1:
            ref = None
        for ctx in ('prop', 'qprop'):
            text = (QUALS if ctx == 'qprop' else '') + 'class S { %schar16 s = \'%s\'; };\n' % (
                '[Key] ' if ctx == 'qprop' else '', body)

            def on_ok(ns, ref=ref, body=body):
                got = env.view.view_class(ns, 'S').properties['s'].value
                if got == ref:
                    return None
                if got == "'" + body + "'":
                    return 'known:char16-literal-kept-with-quotes-undecoded', 'got %r expected %r' % (got, ref)
                return 'char16-value-differs', 'got %r expected %r' % (got, ref)
            case(env, 'char16', (ctx, body), text, expect='error' if ref is None else 'ok', on_ok=on_ok)


# ----------------------------------------------------------------------------------------------------------------
# F2: numeric literals
# ----------------------------------------------------------------------------------------------------------------
def int_forms(v):
    s, a = ('-' if v < 0 else ''), abs(v)
    forms = [s + str(a), s + hex(a), s + '0X' + ('%X' % a), s + '0' + ('%o' % a), s + bin(a)[2:] + 'b',
             s + bin(a)[2:] + 'B']
    if v >= 0:
        forms.append('+' + str(a))
    return forms


def number_text(ctx, tname, lit):
    if ctx == 'prop':
        return 'class N { %s p = %s; };\n' % (tname, lit)
    if ctx == 'qprop':
        return QUALS + 'class N { [Description("d")] %s p = %s; };\n' % (tname, lit)
    if ctx == 'arr':
        return QUALS + 'class N { [Description("d")] %s p[] = {0, %s}; };\n' % (tname, lit)
    if ctx == 'qdecl':
        return 'Qualifier NQ : %s = %s, Scope(any);\nclass N { %s p; };\n' % (tname, lit, tname)
    return QUALS + 'class N { [Key] uint8 k; %s p; };\ninstance of N { k = 1; p = %s; };\n' % (tname, lit)


def f_numbers(env):
    ctxs = ['prop', 'qprop', 'arr', 'qdecl', 'inst']
    n = 0
    for tname, (lo, hi) in sorted(INT_RANGE.items()):
        vals = sorted({lo - 1, lo, -1, 0, 1, hi, hi + 1, 10 ** 30, -2 ** 200})
        for v in vals:
            for lit in int_forms(v):
                rv = ref_int(lit)
                assert rv == v, (lit, rv, v)
                good = lo <= v <= hi
                for ctx in ctxs:
                    n += 1
                    if QUICK and ctx in ('arr', 'qdecl') and n % 4:
                        continue

                    def on_ok(ns, ctx=ctx, v=v):
                        c = env.view.view_class(ns, 'N')
                        if c is None:
                            return 'class N missing'
                        if ctx in ('prop', 'qprop'):
                            got = c.properties['p'].value
                        elif ctx == 'arr':
                            got = c.properties['p'].value
                            got = got[1] if isinstance(got, list) and len(got) == 2 else ('list', got)
                        elif ctx == 'qdecl':
                            return None
                        else:
                            got = env.view.view_instances(ns)[0].properties['p'].value
                        return None if got == v and not isinstance(got, bool) else \
                            ('integer-value-differs', 'got %r expected %r' % (got, v))
                    case(env, 'number', (ctx, tname, lit), number_text(ctx, tname, lit),
                         expect='ok' if good else 'error', on_ok=on_ok)
    bad = ['08', '019', '2b', '12b', '0x', '0xg', '5.', '1e5', '1.2.3', '--1', '+-1', '1_000', '0b1', '1.5e', '1.5e+',
           '0x1.8', '٣', '1b1', '-', '+', '.', '- 1', '0x-1']
    for lit in bad:
        for tname in ('uint8', 'sint64', 'real32'):
            for ctx in ('prop', 'qprop', 'inst'):
                case(env, 'number-malformed', (ctx, tname, lit), number_text(ctx, tname, lit), expect='error')
    floats = [('1.5', 1.5), ('-.5', -0.5), ('+1.5e+3', 1500.0), ('0.0', 0.0), ('-0.0', 0.0), ('1.0E-2', 0.01),
              ('1.0e999', None), ('-1.0e999', None), ('0.' + '0' * 400 + '1', None), ('9' * 400 + '.0', None),
              ('1.0e-999', None)]
    for lit, v in floats:
        for tname in ('real32', 'real64'):
            for ctx in ('prop', 'qprop', 'inst'):
                def on_ok(ns, ctx=ctx, v=v):
                    if v is None or ctx == 'inst':
                        return None
                    got = env.view.view_class(ns, 'N').properties['p'].value
                    return None if abs(float(got) - v) <= 1e-6 * max(1.0, abs(v)) else \
                        ('real-value-differs', 'got %r expected %r' % (got, v))
                case(env, 'number-real', (ctx, tname, lit), number_text(ctx, tname, lit),
                     expect='any' if v is None else 'ok', on_ok=on_ok)


# ----------------------------------------------------------------------------------------------------------------
# F3: type x initializer-kind matrix (totality only)
# ----------------------------------------------------------------------------------------------------------------
TYPES = ['uint8', 'sint8', 'uint16', 'sint16', 'uint32', 'sint32', 'uint64', 'sint64', 'real32', 'real64', 'char16',
         'string', 'boolean', 'datetime', 'REF']
INITS = ['5', '-5', '300', '1.5', "'c'", '"str"', '"20200101000000.000000+000"', 'true', 'null', '{1, 2}',
         '{"a", "b"}', '{}', '$undefined_alias', 'SomeHandle', '{null}', '{true, 1, "x"}', '99999999999999999999999', '$mx_inst', '$mx_cls']
ALIAS_PREFIX = (QKEY + 'class AL { [Key] uint8 k; };\ninstance of AL as $mx_inst { k = 1; };\n'
                'class ALC as $mx_cls { };\n')


def f_matrix(env):
    for t in TYPES:
        decl_t = 'MX ref' if t == 'REF' else t
        for init in INITS:
            for arr in ('', '[]', '[2]'):
                if t == 'REF' and arr:
                    continue
                for ctx in ('prop', 'qprop', 'qdecl', 'qual', 'inst', 'param'):
                    if QUICK and arr == '[2]' and ctx != 'prop':
                        continue
                    if ctx == 'prop':
                        text = 'class MX { %s p%s = %s; };\n' % (decl_t, arr, init)
                    elif ctx == 'qprop':
                        text = QUALS + 'class MX { [Description("d")] %s p%s = %s; };\n' % (decl_t, arr, init)
                    elif ctx == 'qdecl':
                        if t == 'REF':
                            continue
                        text = 'Qualifier MQ : %s%s = %s, Scope(any);\n' % (t, arr, init)
                    elif ctx == 'qual':
                        if t == 'REF':
                            continue
                        use = init if init.startswith('{') else '(%s)' % init
                        text = 'Qualifier MQ : %s%s, Scope(any);\n[MQ%s] class MX { };\n' % (t, arr, use)
                    elif ctx == 'inst':
                        text = QUALS + 'class MX { [Key] uint8 k; %s p%s; };\ninstance of MX { k = 1; p = %s; };\n' % (
                            decl_t, arr, init)
                    else:
                        if arr == '[2]' or init not in ('5', '"str"'):
                            continue
                        text = QUALS + 'class MX { uint8 m([In] %s a%s = %s); };\n' % (decl_t, arr, init)
                    exp = 'error' if init == '$undefined_alias' or ctx == 'param' else 'any'
                    if init.startswith('$mx_'):
                        text = text[len(QUALS):] if text.startswith(QUALS) else text
                        text = ALIAS_PREFIX + QUALS[len(QKEY):] + text
                    case(env, 'matrix', (ctx, t, arr, init), text, expect=exp)


# ----------------------------------------------------------------------------------------------------------------
# F4: pragmas
# ----------------------------------------------------------------------------------------------------------------
NS_PARAMS = ['', '1:', 'a b', 'a/b', '/a', '//h/a', 'http://h/a', 'a/', 'a//b', 'é', 'root/cimv2', ':', 'a:b', '/',
             '//', 'a.b', 'a-b', 'root/é', 'A_1/b2', ' a', 'a ', 'a\\nb', 'https://h:5989/root/x', '//h', 'interop',
             'a/b/c/d', '0', '_', 'a/b/', '/a/b', '//a/b', 'x:/a', 'x:a/b', 'a\\\\b', 'a?b', '*', 'a' * 300, '\\x41',
             'r\\x0', 'a\\tb', '/a/', 'a/ b', '$a', 'a/#', 'http:a']
PRAGMAS = [('#pragma', 'error'), ('#pragma include', 'error'), ('#pragma include(', 'error'),
           ('#pragma include()', 'error'), ('#pragma include(5)', 'error'), ('#pragma include("a" "b")', 'error'),
           ('# pragma locale("x")', 'any'), ('#pragma 5("x")', 'error'), ('#pragma locale("x");', 'error'),
           ('#PRAGMA LOCALE("x")', 'ok'), ('#pragma class("x")', 'any'), ('#pragma instance("x")', 'any'),
           ('#pragma null("x")', 'any'), ('#pragma true("x")', 'any'), ('#pragma ref("x")', 'any'),
           ('#pragma association("x")', 'any'), ('##pragma locale("x")', 'error'),
           ('#pragma locale("x") #pragma locale("y")', 'ok'), ("#pragma locale('x')", 'error'),
           ('#pragma locale("\\x1")', 'any'), ('#pragma locale("\\q")', 'error'), ('pragma locale("x")', 'error'),
           ('#pragma locale "x"', 'error'), ('#pragma locale("x"', 'error'), ('#pragma locale(x)', 'error'),
           ('#pragma locale(("x"))', 'error'), ('#pragma locale("x"))', 'error'), ('#pragma uint8("x")', 'any'),
           ('#pragma instancelocale("en_US")', 'ok'), ('#pragma nonlocal("x")', 'ok'), ('#pragma string("")', 'any'),
           ('#pragma namespace("a") #pragma namespace("b") #pragma namespace("a")', 'ok'),
           ('#pragma namespace(null)', 'error'), ('#pragma namespace("a", "b")', 'error'),
           ('#\npragma\nlocale\n(\n"x"\n)\n', 'ok'), ('#pragma /* c */ locale("x")', 'ok')]


def f_pragmas(env):
    for p in NS_PARAMS:
        val, _ = ref_decode(p)
        target = ref_namespace(val)
        for tail in ('class PN { };\n', 'class PN : Missing { };\n'):
            text = '#pragma namespace("%s")\n%s' % (p, tail)
            if 'Missing' in tail:
                exp = 'error'
            else:
                exp = 'ok' if target is not None else 'error'

            def on_ok(ns, target=target):
                if env.view.view_class(target, 'PN') is None:
                    return 'namespace-pragma-not-applied', 'class PN not in namespace %r' % target
                return None
            case(env, 'pragma-namespace', (p, tail), text, expect=exp, on_ok=on_ok)
    for text, exp in PRAGMAS:
        for tail in ('', '\nclass PG { };\n'):
            case(env, 'pragma', (text, tail), text + tail, expect=exp)


# ----------------------------------------------------------------------------------------------------------------
# F5: include structure and search path content
# ----------------------------------------------------------------------------------------------------------------
_DIRN = [0]


def mkfiles(files):
    _DIRN[0] += 1
    base = os.path.join(TMP, 'd%d' % _DIRN[0])
    out = {}
    for rel, text in files.items():
        p = os.path.join(base, rel)
        os.makedirs(os.path.dirname(p), exist_ok=True)
        if text is None:
            os.makedirs(p, exist_ok=True)
            continue
        with open(p, 'w', encoding='utf-8', newline='') as f:
            f.write(text)
        out[p] = text
    return base, out


def same_path(a, b):
    return a is not None and b is not None and os.path.normpath(a) == os.path.normpath(b)


def file_case(env, fam, key, base, files, start, hints=(), expect='any', bad=None, classes=(), extra=None):
    """bad = (relative path, line, col0) of an injected illegal '@' (the expected error position)."""
    path = os.path.join(base, start)
    ns = new_ns()

    def on_ok(ns):
        for c in classes:
            if env.view.view_class(ns, c) is None:
                return 'class %s of an included/dependency file missing' % c
        return None
    kind, x, ns = case(env, fam, key, None, ns=ns, run=lambda: env.comp.compile_file(path, ns), files=files,
                       hints=set(hints) | {'file'}, expect=expect, on_ok=on_ok, extra=dict(start=start, **(extra or {})))
    if kind == 'mce' and bad is not None:
        d = dict(family=fam, start=start, files={os.path.relpath(k, TMP): v[:200] for k, v in files.items()})
        if not same_path(x.file, os.path.join(base, bad[0])):
            R.violation('error-names-wrong-file', reported=os.path.relpath(x.file, base) if x.file else None,
                        expected=bad[0], **d)
        elif x.lineno != bad[1] or x.column not in (bad[2], bad[2] + 1):
            R.violation('error-position-wrong-in-included-file', reported=(x.lineno, x.column), expected=bad[1:], **d)
    return kind, x, ns


def f_includes(env):
    BAD = 'class %s { };\n\n  @\n'
    # self and mutual inclusion
    for name, files, start in [
            ('self', {'a.mof': '#pragma include("a.mof")\n'}, 'a.mof'),
            ('self-after-class', {'a.mof': 'class SA { };\n#pragma include("a.mof")\n'}, 'a.mof'),
            ('mutual', {'a.mof': '#pragma include("b.mof")\n', 'b.mof': '#pragma include("a.mof")\n'}, 'a.mof'),
            ('cycle3', {'a.mof': '#pragma include("s/b.mof")\n', 's/b.mof': '#pragma include("c.mof")\n',
                        's/c.mof': '#pragma include("../a.mof")\n'}, 'a.mof')]:
        base, files = mkfiles(files)
        file_case(env, 'include-cycle', name, base, files, start, hints={'cyclic'}, expect='error')
    # chains with the defect (illegal character | missing file | none) at each depth
    for depth in (1, 2, 3):
        for where in list(range(depth + 1)) + ['missing', 'none', 'dir']:
            for sub in ('', 's/'):
                files, rels = {}, []
                for d in range(depth + 1):
                    rels.append('f0.mof' if d == 0 else ('%sf%d.mof' % (sub if d == 1 else '', d)))
                cur_dir = ''
                paths = []
                for d in range(depth + 1):
                    paths.append(os.path.join(cur_dir, rels[d]) if d else rels[0])
                    cur_dir = os.path.dirname(paths[-1])
                for d in range(depth + 1):
                    body = 'class K%d { };\n' % d
                    if d < depth:
                        body += '#pragma include("%s")\n' % rels[d + 1]
                    elif where == 'missing':
                        body += '#pragma include("nothere.mof")\n'
                    elif where == 'dir':
                        body += '#pragma include("adir")\n'
                        files[os.path.join(os.path.dirname(paths[d]), 'adir')] = None
                    body += 'class L%d { };\n' % d
                    if where == d:
                        body = BAD % ('K%d' % d) + body if d == depth else body + '\n  @\n'
                    files[paths[d]] = body
                base, fmap = mkfiles(files)
                bad = None
                if isinstance(where, int):
                    t = files[paths[where]]
                    ln = t[:t.index('@')].count('\n') + 1
                    bad = (paths[where], ln, 2)
                exp = 'ok' if where == 'none' else 'error'
                cls = ['K%d' % d for d in range(depth + 1)] + ['L%d' % d for d in range(depth + 1)]
                file_case(env, 'include-chain', (depth, where, sub), base, fmap, 'f0.mof', expect=exp, bad=bad,
                          classes=cls if where == 'none' else ())
    # odd names
    base, fmap = mkfiles({'o.mof': 'class O1 { };\n#pragma include("noext")\n#pragma include("x")\n', 'noext': 'class O2 { };\n',
                          'x': 'class O3 { };\n'})
    file_case(env, 'include-names', 'noext', base, fmap, 'o.mof', expect='ok', classes=['O1', 'O2', 'O3'])
    for i, inc in enumerate(['', 'x', '.', '..', 'a\\\\b.mof', '/', 'o.mof/x', '\\x41.mof', 'nul\\x0.mof']):
        base, fmap = mkfiles({'o.mof': 'class O1 { };\n#pragma include("%s")\n' % inc})
        file_case(env, 'include-names', ('odd', i), base, fmap, 'o.mof', expect='error')
    for i, start in enumerate(['nothere.mof', 'x', '', 'adir', 'adir/', 'o.mof/']):
        base, fmap = mkfiles({'o.mof': 'class O1 { };\n', 'adir': None})
        file_case(env, 'compile-file-path', i, base, fmap, start, expect='error')
    # include from a string (relative to the current directory) and a caller supplied file name
    base, fmap = mkfiles({'i.mof': 'class SI { };\n', 'j.mof': 'class SJ { };\n  @\n'})
    for i, (inc, exp) in enumerate([(os.path.join(base, 'i.mof'), 'ok'), (os.path.join(base, 'j.mof'), 'error'),
                                    ('c09_not_there_%d.mof' % os.getpid(), 'error')]):
        text = 'class S0 { };\n#pragma include("%s")\n' % inc.replace('\\', '\\\\')
        kind, x, ns = case(env, 'include-from-string', i, text, files=fmap, expect=exp, hints={'file'})
        if kind == 'mce' and not (same_path(x.file, os.path.join(base, 'j.mof')) and x.lineno == 2):
            R.violation('error-names-wrong-file', reported=repr(x.file), expected='j.mof line 2',
                        family='include-from-string', mof=text)
    ns = new_ns()
    kind, x, ns = case(env, 'filename-argument', 0, None, ns=ns, files={'given.mof': 'class FN { };\n @\n'},
                       run=lambda: env.comp.compile_string('class FN { };\n @\n', ns, filename='given.mof'),
                       expect='error', hints={'file'})
    if kind == 'mce' and (x.file != 'given.mof' or x.lineno != 2):
        R.violation('error-names-wrong-file', reported=repr(x.file), expected='given.mof line 2',
                    family='filename-argument')


DEP_CASES = [
    # name, search path files, MOF, expectation, hints, classes expected
    ('superclass-found', {'Base.mof': 'class Base { uint8 b; };\n'}, 'class D : Base { uint8 k; };\n', 'ok', (), ['Base', 'D']),
    ('superclass-chain', {'Base.mof': 'class Base : Root { uint8 b; };\n', 'x/Root.mof': 'class Root { };\n'},
     'class D : Base { uint8 k; };\n', 'ok', (), ['Root', 'Base', 'D']),
    ('superclass-bad-file', {'Base.mof': 'class Base { uint8 b; };\n\n  @\n'}, 'class D : Base { };\n', 'error', (), []),
    ('superclass-self-derived', {'Base.mof': 'class Base : Base { };\n'}, 'class D : Base { };\n', 'error',
     ('cyclic',), []),
    ('superclass-mutual', {'A1.mof': 'class A1 : B1 { };\n', 'B1.mof': 'class B1 : A1 { };\n'}, 'class D : A1 { };\n',
     'error', ('cyclic',), []),
    ('superclass-wrong-content', {'Base.mof': 'class Other { };\n'}, 'class D : Base { };\n', 'error',
     ('depfile-wrong',), []),
    ('superclass-empty-file', {'Base.mof': ''}, 'class D : Base { };\n', 'error', ('depfile-wrong',), []),
    ('qualifiers-found', {'qualifiers.mof': QUALS}, 'class D { [Key] uint8 k; };\n', 'ok', (), ['D']),
    ('qualifiers-optional-found', {'qualifiers_optional.mof': QUALS}, 'class D { [Key] uint8 k; };\n', 'ok', (), ['D']),
    ('qualifiers-recursive', {'qualifiers.mof': 'class X { [Key] uint8 k; };\n'}, 'class D { [Key] uint8 k; };\n',
     'error', ('cyclic',), []),
    ('qualifiers-without-it', {'qualifiers.mof': 'Qualifier Other : boolean, Scope(any);\n'},
     'class D { [Key] uint8 k; };\n', 'error', (), []),
    ('qualifiers-bad-file', {'qualifiers.mof': 'Qualifier Key : boolean, Scope(any)\n'}, 'class D { [Key] uint8 k; };\n',
     'error', (), []),
    ('instance-class-found', {'IC.mof': QKEY + 'class IC { [Key] uint8 k; };\n'}, 'instance of IC { k = 1; };\n', 'ok', (),
     ['IC']),
    ('instance-class-recursive', {'IC.mof': 'instance of IC { k = 1; };\n'}, 'instance of IC { k = 1; };\n', 'error',
     ('cyclic',), []),
    ('instance-class-wrong-content', {'IC.mof': 'class Other { };\n'}, 'instance of IC { k = 1; };\n', 'error',
     ('depfile-wrong',), []),
    ('reference-class-found', {'RC.mof': 'class RC { };\n', 'qualifiers.mof': QUALS}, 'class D { RC ref r; };\n', 'ok', (),
     ['RC', 'D']),
    ('reference-class-no-qualifiers', {'RC.mof': 'class RC { };\n'}, 'class D { RC ref r; };\n', 'any', (), []),
    ('reference-cycle', {'RC.mof': 'class RC { D ref d; };\n', 'qualifiers.mof': QUALS}, 'class D { RC ref r; };\n', 'any',
     ('cyclic',), []),
    ('reference-class-wrong-content', {'RC.mof': 'class Other { };\n', 'qualifiers.mof': QUALS},
     'class D { RC ref r; };\n', 'any', ('depfile-wrong',), []),
    ('embedded-class-found', {'EC.mof': 'class EC { };\n', 'qualifiers.mof': QUALS},
     'class D { [EmbeddedInstance("EC")] string e; };\n', 'ok', (), ['EC', 'D']),
    ('include-falls-back-to-search-path', {'sub/Inc.mof': 'class Inc { };\n'}, '#pragma include("Inc.mof")\nclass D { };\n',
     'ok', (), ['Inc', 'D']),
    ('dependency-file-case', {'bASE.MOF': 'class Base { };\n', 'base.mof': 'class Base { };\n'}, 'class D : BASE { };\n',
     'ok', (), ['D']),
]


def f_dependencies():
    for kindname in ('mof', 'script'):
        for di, (name, sfiles, text, exp, hints, classes) in enumerate(DEP_CASES):
            if QUICK and kindname == 'script' and di % 2:
                continue
            base, fmap = mkfiles(sfiles)
            env = Env(kindname, search_paths=[base])

            def on_ok(ns, classes=classes, env=env):
                for c in classes:
                    if env.view.view_class(ns, c) is None:
                        return 'class %s of a dependency file missing' % c
                return None
            for trailer in ('', '\n\nclass After { };\n'):
                case(env, 'dependency', (kindname, name, bool(trailer)), text + trailer, files=fmap,
                     hints=set(hints) | {'file'}, expect=exp, on_ok=on_ok, extra=dict(search_path_files=sorted(sfiles)))


# ----------------------------------------------------------------------------------------------------------------
# F9: constructs at known positions
# ----------------------------------------------------------------------------------------------------------------
# name, text, (relative line, col0) of the token the error is about, lexical (reported by the parser's error hook)
POS_KINDS = [
    ('illegal-char', 'class P1 {\n  uint8 a;\n  @ uint8 b;\n};', (3, 2), True),
    ('grammar', 'class P2 {\n  uint8 a\n  uint8 b;\n};', (3, 2), True),
    ('bad-octal', 'class P3 {\n  uint8 a = 08;\n};', (2, 12), True),
    ('unterminated-string', 'class P4 {\n  string a = "abc;\n};', (2, 13), True),
    ('unterminated-comment', 'class P4b {\n  string a; /* abc\n};', (2, 12), True),
    ('missing-superclass', 'class P5 : Missing {\n  uint8 a;\n};', (1, 0), False),
    ('undefined-alias', 'class P6 {\n  P6 ref r =\n     $undef;\n};', (3, 5), False),
    ('instance-unknown-property', 'class P7 { uint8 k; };\ninstance of P7 {\n  nope = 1;\n};', (2, 0), False),
    ('instance-bad-value', 'class P8 { uint8 k; };\ninstance of P8 {\n  k = 300;\n};', (2, 0), False),
    ('instance-duplicate-property', 'class P8b { uint8 k; };\ninstance of P8b {\n  k = 1;\n k = 2;\n};', (2, 0), False),
    ('conflicting-flavors', 'Qualifier P9 : boolean,\n Scope(any),\n Flavor(EnableOverride, DisableOverride);', (1, 0), False),
    ('unknown-qualifier', 'class P10 {\n  [Nope] uint8 a;\n};', (2, 3), False),
    ('namespace-with-host', '#pragma namespace(\n"//h/a")', (1, 0), False),
    ('missing-reference-class', 'class P13 {\n  Missing ref r;\n};', (1, 0), False),
    ('instance-of-missing-class', 'instance of Missing {\n  k = 1;\n};', (1, 0), False),
]
NT_FIRST = {'missing-superclass', 'missing-reference-class', 'undefined-alias', 'unknown-qualifier'}
POS_PREFIX = [('none', ''), ('indent', '  '), ('blank-lines', '\n\n'), ('line-comments', '// c\n// d\n'),
              ('block-comment', '/* c\n d\n*/\n'), ('crlf', '// c\r\n\r\n'), ('class-before', 'class Z0 {};\n'),
              ('tab', '\t'), ('block-comment-same-line', '/* c */ '), ('many', '\n' * 1500)]
POS_SUFFIX = [('none', ''), ('newline', '\n'), ('class-after', '\n\n\nclass Z9 {};\n')]


def check_known_position(x, text, tok_line, tok_col, lexical, nt_first, detail):
    """The reported line is the line of the offending token, the column its column (0- or 1-based)."""
    if x.lineno is None:
        return
    lost = block_comment_newlines_before(text)[tok_line]
    d = dict(detail, lineno=x.lineno, column=x.column, expected_line=tok_line, expected_column=tok_col)
    found = []
    # line
    if x.lineno == tok_line:
        pass
    elif lost and x.lineno == tok_line - lost:
        found.append('known:lineno-ignores-newlines-inside-block-comments')
    elif not lexical and x.lineno > tok_line - lost:
        # the line counter is where the lexer stands (the lookahead token or the end of input)
        found.append('known:semantic-error-lineno-is-lookahead-line-not-construct-line')
    else:
        found.append('error-line-wrong')
    # column
    if x.column in (tok_col, tok_col + 1):
        pass
    elif not lexical and nt_first and x.column == 0:
        # PLY gives lexpos 0 for a production that starts with a nonterminal: column 0, context = start of input
        found.append('known:semantic-error-column-0-when-production-starts-with-nonterminal')
    elif tok_line == 1 and tok_col > 0 and x.column == tok_col - 1:
        found.append('known:column-one-less-on-first-line')
    else:
        found.append('error-column-wrong')
    for vid in found:
        R.violation(vid, msg=(x.msg or '')[:80], **d)


def f_positions(env):
    n = 0
    for kname, ktext, (kl, kc), lexical in POS_KINDS:
        for pname, ptext in POS_PREFIX:
            for sname, stext in POS_SUFFIX:
                if lexical and kname.startswith('unterminated') and stext.strip():
                    pass
                text = ptext + ktext + stext
                tok_line = ptext.count('\n') + kl
                tok_col = kc + (len(ptext) - (ptext.rfind('\n') + 1) if kl == 1 else 0)
                modes = ['string', 'file', 'include']
                for mode in modes:
                    n += 1
                    if mode != 'string' and QUICK and n % 3:
                        continue
                    if pname == 'many' and mode != 'string':
                        continue
                    detail = dict(family='position', kind=kname, prefix=pname, suffix=sname, mode=mode,
                                  mof=text if len(text) < 400 else '...' + text[-300:])
                    key = (kname, pname, sname, mode)
                    if mode == 'string':
                        kind, x, ns = case(env, 'position', key, text, expect='error')
                        want_file = None
                    else:
                        files = {'p.mof': text}
                        start = 'p.mof'
                        if mode == 'include':
                            files['outer.mof'] = 'class Outer { };\n#pragma include("p.mof")\nclass Outer2 { };\n'
                            start = 'outer.mof'
                        base, fmap = mkfiles(files)
                        kind, x, ns = file_case(env, 'position', key, base, fmap, start, expect='error')
                        want_file = os.path.join(base, 'p.mof')
                    if kind != 'mce':
                        continue
                    if want_file is None and x.file is not None or \
                            want_file is not None and not same_path(x.file, want_file):
                        R.violation('error-names-wrong-file', reported=repr(x.file), expected=mode, **detail)
                        continue
                    check_known_position(x, text, tok_line, tok_col, lexical, kname in NT_FIRST, detail)
    # errors inside an embedded-object value: the position is inside the value
    emb = QUALS + 'class PE { [Key] uint8 k; [EmbeddedInstance("PE")] string e; };\n'
    for i, (val, exp) in enumerate([('instance of PE { k = 2; };', 'ok'), ('instance of PE { k = 2; }', 'error'),
                                    ('instance of PE { k = @; };', 'error'), ('garbage', 'error'),
                                    ('class PF { };', 'error'), ('Qualifier PQ : boolean, Scope(any);', 'error'),
                                    ('instance of PE { nope = 2; };', 'error'), ('instance of Missing { k = 2; };', 'error'),
                                    ('', 'any'), ('// nothing', 'error'),
                                    ('instance of PE { k = 2; e = \\"instance of PE { k = 3; };\\"; };', 'ok'),
                                    ('instance of PE { k = 2; e = \\"instance of PE { k = ; };\\"; };', 'error'),
                                    ('#pragma namespace(\\"other\\")', 'any'), ('#pragma include(\\"nothere.mof\\")', 'error')]):
        for mode in ('string', 'file'):
            text = emb + 'instance of PE {\n  k = 1;\n  e = "%s";\n};\n' % val
            if mode == 'string':
                kind, x, ns = case(env, 'embedded', (i, mode), text, expect=exp, hints={'embedded'})
            else:
                base, fmap = mkfiles({'e.mof': text})
                kind, x, ns = file_case(env, 'embedded', (i, mode), base, fmap, 'e.mof', expect=exp, hints={'embedded'})
                if kind == 'mce' and x.lineno is not None and x.file is None:
                    pass  # reported by check_position as error-in-file-reports-no-file


# ----------------------------------------------------------------------------------------------------------------
# F6: token-level mutations and truncations of valid MOF;  F7: random token soup and random text
# ----------------------------------------------------------------------------------------------------------------
CORPUS = [
    ('qualdecl', 'Qualifier Abstract : boolean = false, Scope(class, association, indication), '
                 'Flavor(EnableOverride, Restricted);\n'
                 'Qualifier Values : string[], Scope(property, method, parameter), '
                 'Flavor(EnableOverride, ToSubclass, Translatable);\n'
                 'Qualifier MaxLen : uint32 = null, Scope(property, method, parameter);\n'
                 'Qualifier Bits : uint8[3] = {1, 2}, Scope(any), Flavor(DisableOverride);\n'),
    ('class', 'Qualifier Abstract : boolean = false, Scope(class), Flavor(Restricted);\n'
              'Qualifier Values : string[], Scope(any), Flavor(Translatable);\n'
              'Qualifier MaxLen : uint32 = null, Scope(any);\n'
              '[Description("d" "e"), Abstract] class M_A {\n'
              '  [Key, MaxLen(8)] string id = "a\\x0041";\n'
              '  uint8 n[3] = {1, 0x2, 011b};\n  real32 f = -1.5e3;\n  char16 c = \'x\';\n  boolean b = TRUE;\n'
              '  datetime d = "20200101000000.000000+000";\n'
              '  [Values{"x", "y"}: ToSubclass] uint16 e = null;\n'
              '  sint64 m([In] uint8 a, M_A REF r, string s[]);\n};\n'),
    ('assoc', 'class M_A { [Key] string id; };\n'
              '[Association] class M_L { [Key] M_A REF left; [Key] M_A REF right = null; uint8 w = 1; };\n'),
    ('instance', 'class M_A { [Key] string id; uint8 n[]; boolean b; M_A REF other; };\n'
                 'instance of M_A as $i1 { id = "k1"; n = {4, 5}; b = false; };\n'
                 'instance of M_A { id = "k2"; other = $i1; };\n'
                 '[Description("x")] instance of M_A as $i3 { [Description("y")] id = "k3"; other = "M_A.id=\\"k1\\""; };\n'),
    ('pragma', '#pragma namespace("m/x")\n#pragma locale("en_US")\n// comment\nclass M_N { /* c */ };\n'),
    ('embedded', 'class M_E { [Key] uint8 k; [EmbeddedInstance("M_E")] string e; [EmbeddedInstance("M_E")] string f[]; };\n'
                 'instance of M_E { k = 1; e = "instance of M_E { k = 2; };"; f = {"instance of M_E { k = 3; };"}; };\n'),
    ('alias', 'class M_C as $c1 { uint8 a; };\nclass M_D as $c2 : M_C { uint8 b = 0; M_C REF r; };\n'),
    # every alternative of the declaration productions at least once: the 8 class forms (qualifier list x alias x
    # superclass), the 8 property forms, the 4 reference forms, the 4 method forms and the 8 parameter forms
    ('grammar-forms',
     'Qualifier Q : string = null, Scope(any);\n'
     'class G_A { [Key] string id; };\n'
     'class G_B as $gb { uint8 a; };\n'
     'class G_C : G_A { uint8 c; };\n'
     'class G_D as $gd : G_A { uint8 d; };\n'
     '[Q("x")] class G_E { uint8 e; };\n'
     '[Q("x")] class G_F as $gf { uint8 f; };\n'
     '[Q("x")] class G_G : G_A { uint8 g; };\n'
     '[Q("x")] class G_H as $gh : G_A { uint8 h; };\n'
     'class G_P {\n'
     '  uint8 p1; uint8 p2 = 1; uint8 p3[]; uint8 p4[2] = {1, 2};\n'
     '  [Q("x")] uint8 p5; [Q("x")] uint8 p6 = 1; [Q("x")] uint8 p7[3]; [Q("x")] uint8 p8[2] = {1, 2};\n'
     '  uint8 m1(); uint8 m2(uint8 a, uint8 b[], uint8 c[2], G_A REF d, G_A REF e[], [Q("x")] uint8 f, '
     '[Q("x")] uint8 g[], [Q("x")] G_A REF h, [Q("x")] G_A REF i[2]);\n'
     '  [Q("x")] uint8 m3(); [Q("x")] uint8 m4(uint8 a);\n'
     '};\n'
     '[Association] class G_R { [Key] string id; G_A REF r1; G_A REF r2 = null; [Q("x")] G_A REF r3; '
     '[Q("x")] G_A REF r4 = null; };\n'),
]
SUBS = [';', '{', '}', '(', ')', ',', '=', ':', '$', '#', '[', ']', '5', '"s"', 'null', 'true', 'X', 'class', 'instance',
        'of', 'as', 'ref', 'qualifier', 'uint8', '1.5', "'c'", '-1', '0x', '@', 'Key']


def corpus_text(name, body):
    needs_q = name not in ('qualdecl',)
    return (QUALS if needs_q else '') + body, len(QUALS) if needs_q else 0


def f_mutations(env):
    for name, body in CORPUS:
        text, off = corpus_text(name, body)
        case(env, 'corpus', name, text, expect='ok', hints={'embedded'})
        toks = [(k, s, e) for k, s, e in scan(text)[0] if s >= off]
        muts = []
        for i, (k, s, e) in enumerate(toks):
            muts.append((('drop', i), text[:s] + text[e:]))
            muts.append((('dup', i), text[:e] + ' ' + text[s:e] + text[e:]))
            if i + 1 < len(toks):
                k2, s2, e2 = toks[i + 1]
                muts.append((('swap', i), text[:s] + text[s2:e2] + text[e:s2] + text[s:e] + text[e2:]))
            subs = SUBS
            if QUICK:
                subs = [SUBS[(i * 7 + j * 11 + len(name)) % len(SUBS)] for j in range(3)]
            for sub in subs:
                if sub != text[s:e]:
                    muts.append((('sub', i, sub), text[:s] + sub + text[e:]))
        for key, m in muts:
            case(env, 'mutation', (name,) + key, m, hints={'embedded'})
        # every prefix truncation (unterminated everything)
        step = 2 if QUICK else 1
        for cut in range(off, len(text), step):
            case(env, 'truncation', (name, cut), text[:cut], hints={'embedded'})
        if not QUICK:
            # character level: delete / insert a character
            for pos in range(off, len(text)):
                case(env, 'char-delete', (name, pos), text[:pos] + text[pos + 1:], hints={'embedded'})
                ch = '"\'\\/*@\n$'[pos % 8]
                case(env, 'char-insert', (name, pos, ch), text[:pos] + ch + text[pos:], hints={'embedded'})


SOUP = ['class', 'instance', 'of', 'as', 'qualifier', 'scope', 'flavor', 'ref', 'null', 'true', 'false', 'pragma',
        'uint8', 'string', 'boolean', 'datetime', 'real32', 'char16', 'sint64', 'any', 'property', 'association',
        'indication', 'enableoverride', 'disableoverride', 'restricted', 'tosubclass', 'translatable', 'toinstance',
        'namespace', 'include', 'Key', 'Description', 'A', 'B', 'M_A', '$a', '$', '#', '{', '}', '(', ')', '[', ']', ';',
        ':', ',', '=', '"s"', '"a/b"', '"\\x1"', "'c'", '0', '1', '-1', '08', '0x1F', '101b', '1.5', '.5e3',
        '99999999999999999999', '// c\n', '/* c */', '/*', '"', "'", '\\', '\n', '@', 'é', '\x00', '.', '*', '\t']


def f_random(env):
    n = 1500 if QUICK else 120000
    for i in range(n):
        mode = i % 4
        if mode == 0:      # token soup
            text = ' '.join(RND.choice(SOUP) for _ in range(RND.randint(1, 25)))
        elif mode == 1:    # a plausible declaration skeleton with random fillers
            f = lambda: RND.choice(SOUP)  # noqa: E731
            text = RND.choice([
                'class A { %s %s = %s; };', 'class A : %s { %s %s; };', '[%s(%s)] class A { %s x; };',
                'Qualifier Q : %s = %s, Scope(%s);', 'Qualifier Q : %s, Scope(any), Flavor(%s, %s);',
                'class A { [Key] uint8 k; %s p; };\ninstance of A { k = %s; p = %s; };',
                '#pragma %s(%s) %s', 'class A { %s m(%s %s); };', 'class A { uint8 p[%s] = {%s, %s}; };',
                'instance of %s as %s { x = %s; };']) % tuple(f() for _ in range(3))
        elif mode == 2:    # random characters
            alpha = 'abAB01 \n\t"\'\\/*#${}()[];:,=.-+@é\x00xX'
            text = ''.join(RND.choice(alpha) for _ in range(RND.randint(0, 40)))
        else:              # splice two corpus fragments
            a = RND.choice(CORPUS)[1]
            b = RND.choice(CORPUS)[1]
            i1, i2 = RND.randrange(len(a)), RND.randrange(len(b))
            text = a[:i1] + b[i2:]
        if mode != 2 and RND.random() < 0.5:
            text = QUALS + text
        case(env, 'random', (mode, i, text[-60:]), text, hints={'embedded'})


# ----------------------------------------------------------------------------------------------------------------
# F8: repositories that reject
# ----------------------------------------------------------------------------------------------------------------
REPO_MOF = QKEY + ('class RA { [Key] uint8 k; string s; };\nclass RB : RA { RA ref r; };\n'
                   'instance of RA as $ra { k = 1; s = "x"; };\ninstance of RB { k = 2; r = $ra; };\n')
REPO_MOF_NOKEY = QKEY + 'class RA { [Key] uint8 k; string s; };\nclass RB : RA { RA ref r; };\ninstance of RA { s = "x"; };\n'
REPO_OPS = ['SetQualifier', 'EnumerateQualifiers', 'CreateClass', 'ModifyClass', 'GetClass', 'CreateInstance',
            'ModifyInstance', 'DeleteQualifier']


def f_repository(env):
    repo = env.repo
    n = 0
    seed_ns = new_ns()
    attempt(lambda: env.comp.compile_string(QKEY, seed_ns))
    seed = dict(repo.qual.get(seed_ns, {}))
    for variant, mof in (('keyed', REPO_MOF), ('nokey', REPO_MOF_NOKEY), ('prequal', REPO_MOF[len(QKEY):])):
        for op in REPO_OPS:
            for idx in (1, 2, 0):
                for code in CODES:
                    for scn in ('fresh', 'recompile', 'forced'):
                        n += 1
                        if variant == 'nokey' and op not in ('CreateInstance', 'GetClass', 'ModifyInstance'):
                            continue
                        if variant == 'prequal' and op != 'EnumerateQualifiers':
                            continue
                        if QUICK and (idx == 2 or scn == 'forced') and n % 3:
                            continue
                        ns = new_ns()
                        repo.arm(None)
                        if variant == 'prequal':
                            repo.qual[ns] = dict(seed)    # the qualifier exists in the repository only
                        if scn == 'recompile':
                            k0, x0 = attempt(lambda: env.comp.compile_string(mof, ns))
                            if k0 != 'ok' and variant != 'nokey':
                                R.violation('valid-input-rejected-repository', error=str(x0)[:200], mof=mof)
                        plan = {op: (idx, code)}
                        if scn == 'forced':
                            # make the operation reachable: the creating call reports "already exists"/"not supported"
                            if op in ('ModifyClass',):
                                plan['CreateClass'] = (1, _K.CIM_ERR_ALREADY_EXISTS)
                            elif op in ('ModifyInstance', 'GetClass'):
                                plan['CreateInstance'] = (1, _K.CIM_ERR_ALREADY_EXISTS)
                            elif op == 'DeleteQualifier':
                                plan['SetQualifier'] = (1, _K.CIM_ERR_NOT_SUPPORTED)
                            else:
                                continue
                        repo.arm(plan)

                        def on_ok(ns, variant=variant):
                            if repo.fired:
                                return None
                            if repo.view_class(ns, 'RA') is None or repo.view_class(ns, 'RB') is None:
                                return 'class missing after a compile that reported success'
                            want = 1 if variant == 'nokey' else 2
                            if len(repo.view_instances(ns)) != want:
                                return '%d instances after a compile that reported success, expected %d' % (
                                    len(repo.view_instances(ns)), want)
                            return None
                        # the recorded defect (raw CIMError from the retry) exists only after a first SetQualifier
                        # rejection with INVALID_NAMESPACE (3) or NOT_SUPPORTED (7): any other first code must give
                        # a MOFRepositoryError
                        hts = {'repo'} | ({'setq-other-code'} if op == 'SetQualifier' and code not in (3, 7) else set())
                        kind, x, ns = case(env, 'repository', (variant, op, idx, code, scn), mof, ns=ns, hints=hts,
                                           on_ok=on_ok, extra=dict(plan=repr(plan), scenario=scn))
                        fired = list(repo.fired)
                        repo.arm(None)
                        d = dict(family='repository', mof=mof, plan=repr(plan), scenario=scn, fired=repr(fired))
                        if not fired and kind != 'ok' and variant != 'nokey':
                            R.violation('valid-input-rejected-repository', error=str(x)[:200], **d)
                        if kind == 'mce' and isinstance(x, MOFRepositoryError) and x.cim_error is not None:
                            natural = {_K.CIM_ERR_ALREADY_EXISTS, _K.CIM_ERR_NOT_FOUND, _K.CIM_ERR_INVALID_SUPERCLASS,
                                       _K.CIM_ERR_INVALID_PARAMETER}
                            sc = x.cim_error.status_code
                            if sc not in {c for _, c in fired} | natural:
                                R.violation('repository-error-carries-foreign-cim-error', status=sc, **d)
                            if str(sc) not in str(x):
                                R.violation('repository-error-text-lacks-status-code', text=str(x)[:200], **d)


# ----------------------------------------------------------------------------------------------------------------
# hand-picked semantic errors (also the pool for the mock server and for failure sequences)
# ----------------------------------------------------------------------------------------------------------------
HAND = [
    ('class A { A ref r = $nope; };', 'error'), ('class A { uint8 p = $nope; };', 'error'),
    ('class A as $a { uint8 p; }; class B { A ref r = $a; };', 'any'),
    ('class A { uint8 p; uint8 p; };', 'any'), ('class A { uint8 m(uint8 a, uint8 a); };', 'any'),
    ('instance of A { p = 1; };', 'error'),
    ('class A { [key] uint8 p; }; instance of A { p = 1; }; instance of A { p = 1; };', 'any'),
    ('class A { [key] uint8 p; }; instance of A { q = 1; };', 'error'),
    ('class A { [key] uint8 p; }; instance of A { p = 1; p = 1; };', 'error'),
    ('class A { [key] uint8 p; }; instance of A { p = $x; };', 'error'),
    ('class A { [key] uint8 p; }; instance of A { p = null; };', 'any'),
    ('class A { [key] uint8 p; }; instance of A { P = 1; };', 'ok'),
    ('class A { [key] uint8 p[]; }; instance of A { p = {1}; };', 'any'),
    ('class A { [key] uint8 p; A ref r; }; instance of A { p = 2; r = "garbage"; };', 'error'),
    ('class A { [key] uint8 p; A ref r; }; instance of A { p = 2; r = "A.p=1"; };', 'ok'),
    ('class A { [key] uint8 p; [EmbeddedInstance(5)] string e; };', 'any'),
    ('class A { [key] uint8 p; [EmbeddedInstance("B")] string e; };', 'error'),
    ('class A { [key] uint8 p; [EmbeddedInstance("A")] uint8 e; }; instance of A { p = 1; e = "instance of A { p = 2; };"; };',
     'any'),
    ('class A { [key] uint8 p; [EmbeddedObject] string e; }; instance of A { p = 1; e = "instance of A { p = 2; };"; };', 'any'),
    ('class A { [key] uint8 p; [EmbeddedInstance("A")] string e; }; instance of A { p = 2; e = 5; };', 'any'),
    ('class A { [key] uint8 p; [EmbeddedInstance("A")] string e[]; }; instance of A { p = 2; e = {null}; };', 'any'),
    ('class A : B { };', 'error'), ('class A : A { };', 'error'), ('class A { B ref r; };', 'error'),
    ('class A { A ref r; };', 'ok'), ('class a { }; class A { uint8 x; };', 'any'),
    ('[Key] class A {};', 'any'), ('[Association] class A { };', 'any'), ('[Nope] class A { };', 'error'),
    ('class A { [Key, Key] uint8 p; };', 'any'), ('class A { [Key: Restricted ToSubclass] uint8 p; };', 'error'),
    ('class A { [Key: EnableOverride DisableOverride] uint8 p; };', 'error'),
    ('class A { [Key: Translatable Translatable] uint8 p; };', 'any'),
    ('Qualifier X : boolean, Scope(any), Flavor(EnableOverride, DisableOverride);', 'error'),
    ('Qualifier X : boolean, Scope(any), Flavor(Restricted, ToSubclass);', 'error'),
    ('Qualifier X : boolean, Scope(any, any);', 'any'), ('Qualifier X : boolean, Scope();', 'error'),
    ('Qualifier X : boolean, Scope(any), Flavor();', 'error'), ('Qualifier X : A ref, Scope(any);', 'error'),
    ('Qualifier Key : string, Scope(any);', 'any'), ('Qualifier X : uint8[-1], Scope(any);', 'any'),
    ('Qualifier X : uint8[1.5], Scope(any);', 'error'), ('Qualifier association : boolean, Scope(association);', 'ok'),
    ('class A { uint8 s[-1]; };', 'any'), ('class A { uint8 s[99999999999999999999]; };', 'any'),
    ('class A { uint8 s[0]; };', 'any'), ('class A { uint8 s[] = {1,2,}; };', 'error'),
    ('class class { class class; };', 'any'), ('class instance { uint8 of; };', 'any'),
    ('class A { uint8 null; };', 'error'), ('class true { };', 'error'),
    ('class A { }; instance of A { };', 'error'), ('class A { }', 'error'), ('class A { };;', 'error'),
    ('', 'ok'), ('\n\n', 'ok'), ('// only a comment', 'ok'), ('/* only a comment */', 'ok'), ('﻿class A { };', 'any'),
    ('class é { };', 'any'), ('class A { string s = "é\U0001F600"; };', 'ok'), ('\x00', 'error'),
    ('class A { };\x1a', 'error'), ('class A { uint8 p = 1 };', 'error'), ('class', 'error'), ('@', 'error'),
    ('class A { [Description("x")] };', 'error'),
    ('class A { [key] uint8 p; }; [Description("x")] instance of A { p = 1; };', 'ok'),
    ('class A { [key] uint8 p; }; instance of A as $a { p = 1; }; instance of A as $a { p = 2; };', 'any'),
    ('class A { [key] uint8 p; A ref r; }; instance of A as $zz9 { p = 1; r = $zz9; };', 'error'),
]


def f_handpicked(env):
    for i, (t, exp) in enumerate(HAND):
        for pre in ('', '\n'):
            text = QUALS + pre + t + '\n'
            case(env, 'handpicked', (env.kind, i, pre), text, expect=exp, hints={'embedded'})
            if not t.strip() or t.startswith(('Qualifier Key', '﻿')):
                continue
            case(env, 'handpicked-noquals', (env.kind, i, pre), pre + t + '\n', hints={'embedded'},
                 expect='error' if exp == 'error' else 'any')


# ----------------------------------------------------------------------------------------------------------------
# F10: the mock WBEM server as repository (three ways to connect the compiler to it)
# ----------------------------------------------------------------------------------------------------------------
def f_mock():
    pool = [(QUALS + t + '\n', e if e == 'error' else 'any') for t, e in HAND if t.strip()]
    pool += [(p + k[1] + s, 'error') for k in POS_KINDS for p in ('', '\n') for s in ('', '\n\nclass Z9 {};\n')]
    # the server is stricter than the grammar (reference properties only in associations)
    pool += [(corpus_text(n, b)[0], 'any' if n in ('instance', 'alias') else 'ok') for n, b in CORPUS]
    first = [(REPO_MOF, 'any'), (PROBE, 'ok'), ('#pragma namespace("not_there")\nclass A { };\n', 'any'),
             ('#pragma namespace("a")\nclass A { };\n#pragma namespace("b")\nclass B : A { };\n', 'error')]
    for kindname in ('faked', 'faked-cached', 'faked-direct'):
        env = Env(kindname)
        budget = (30 if QUICK else 10 ** 6) if kindname == 'faked' else (120 if QUICK else 10 ** 6)
        order = list(range(len(pool)))
        RND.shuffle(order)
        for i in list(range(-len(first), 0)) + order[:budget]:
            text, exp = pool[i] if i >= 0 else first[i]
            kind, x, ns = case(env, 'mock', (kindname, i), text, expect=exp, hints={'embedded', 'mock'})
            if kind == 'ok' and i % 5 == 0:
                # compiling the same MOF again: "already exists" rejections by the server
                case(env, 'mock-recompile', (kindname, i), text, ns=ns, hints={'embedded', 'mock'})


# ----------------------------------------------------------------------------------------------------------------
# F11: sequences of failures on one MOFCompiler, then valid MOF (string and file)
# ----------------------------------------------------------------------------------------------------------------
def f_sequences():
    base, fmap = mkfiles({'cyc.mof': '#pragma include("cyc.mof")\n', 'bad.mof': 'class SB { };\n  @\n',
                          'inc_bad.mof': 'class SO { };\n#pragma include("bad.mof")\n',
                          'inc_missing.mof': 'class SM { };\n#pragma include("nothere.mof")\n',
                          'emb.mof': QUALS + 'class SE { [Key] uint8 k; [EmbeddedInstance("SE")] string e; };\n'
                                             'instance of SE { k = 1; e = "instance of SE { k = ; };"; };\n',
                          'good.mof': PROBE})
    steps = [('lexical', 'class S1 { @ };', None), ('grammar', 'class S2 { uint8 };', None), ('eof', 'class S3 {', None),
             ('dependency', 'class S4 : Missing { };', None), ('alias', 'class S5 { S5 ref r = $undef; };', None),
             ('flavors', 'Qualifier S6 : boolean, Scope(any), Flavor(Restricted, ToSubclass);', None),
             ('instance', QKEY + 'class S7 { [Key] uint8 k; };\ninstance of S7 { k = 300; };', None),
             ('embedded', QUALS + 'class S8 { [Key] uint8 k; [EmbeddedInstance("S8")] string e; };\n'
                                  'instance of S8 { k = 1; e = "class X { };"; };', None),
             ('ns-pragma', '#pragma namespace("//h/x")', None), ('ns-pragma-switch', '#pragma namespace("elsewhere")\n@', None),
             ('mismatch', 'class S9 { uint8 p = 300; };', None), ('pragma-unparsable', '#pragma namespace("1:")', None),
             ('file-bad', None, 'bad.mof'), ('file-include-bad', None, 'inc_bad.mof'),
             ('file-include-missing', None, 'inc_missing.mof'), ('file-missing', None, 'nothere.mof'),
             ('file-cyclic', None, 'cyc.mof'), ('file-embedded', None, 'emb.mof')]
    for kindname in ('mof', 'script', 'none') if not QUICK else ('mof', 'script'):
        env = Env(kindname)
        good = os.path.join(base, 'good.mof')
        for i, (n1, t1, f1) in enumerate(steps):
            for j, (n2, t2, f2) in enumerate(steps):
                if QUICK and (i + j) % (2 if kindname == 'mof' else 5):
                    continue
                for n, t, f in ((n1, t1, f1), (n2, t2, f2)):
                    hints = {'embedded', 'file', 'cyclic'} if f == 'cyc.mof' else {'embedded', 'file'}
                    if f is None:
                        case(env, 'sequence', (kindname, n1, n2, n), t, expect='error', hints=hints, force=True)
                    else:
                        file_case(env, 'sequence', (kindname, n1, n2, n, 'f'), base, fmap, f, hints=hints, expect='error')
                # a valid file after the two failures
                ns = new_ns()
                R.case(('sequence-good-file', kindname, n1, n2))
                kind, x = attempt(lambda: env.comp.compile_file(good, ns))
                why = ('%s: %s' % (type(x).__name__, str(x)[:160])) if kind != 'ok' else verify_probe(env.view, ns)
                if why:
                    R.violation('valid-file-fails-after-failures', why=why, after=[n1, n2], repo=kindname)
                    _BUDGET['probe_failures'] += 1
                    if _BUDGET['probe_failures'] < 25:
                        env.fresh()
                # and an error in a string afterwards names no file
                kind, x = attempt(lambda: env.comp.compile_string(PROBE_BAD, new_ns()))
                if kind != 'mce' or x.file is not None or x.lineno != 3:
                    R.violation('later-error-misreported-after-failures', after=[n1, n2], repo=kindname,
                                observed='%s %r' % (kind, (getattr(x, 'lineno', None), getattr(x, 'file', None))))
                    _BUDGET['probe_failures'] += 1
                    if _BUDGET['probe_failures'] < 25:
                        env.fresh()


# ----------------------------------------------------------------------------------------------------------------
# F12: retry after fix. ONE reused MOFCompiler: (1) MOF X fails for a dependency/repository reason, (2) the cause is
# removed through the same compiler (or on disk / in the repository), (3) X is compiled again and must succeed, and
# the repository must then equal what a compiler that never saw the failure produces from (missing piece + X).
# ----------------------------------------------------------------------------------------------------------------
QX = QUALS + ('Qualifier EmbeddedObject : boolean = false, Scope(property, method, parameter), '
              'Flavor(DisableOverride, ToSubclass);\n')
QDESC = 'Qualifier Description : string = null, Scope(any), Flavor(EnableOverride, ToSubclass, Translatable);\n'
RX_T = QKEY + 'class RX_T { [Key] uint8 k; };\n'
RX_ROOT = 'class RX_Root { uint8 r; };\n'
RX_LINK = ('[Association] class RX_L { [Key] RX_T ref a; [Key] RX_T ref b; uint8 w; };\n'
           'instance of RX_T as $a@U@ { k = 1; };\ninstance of RX_T as $b@U@ { k = 2; };\n'
           'instance of RX_L { a = $a@U@; b = $b@U@; w = 3; };\n')
RX_REPO = QX + ('class RX_RA { [Key] uint8 k; string s; };\nclass RX_RB : RX_RA { uint8 n; };\n'
                '[Association] class RX_RL { [Key] RX_RA ref a; [Key] RX_RA ref b; };\n'
                'instance of RX_RA as $ra@U@ { k = 1; s = "x"; };\ninstance of RX_RB as $rb@U@ { k = 2; n = 5; };\n'
                'instance of RX_RL { a = $ra@U@; b = $rb@U@; };\n')
RX_REPO_Y = RX_REPO + 'class RX_RZ : RX_RA { uint8 z; };\ninstance of RX_RZ { k = 9; z = 1; };\n'


def _rx(name, x, fail, fixes, y, setup=(), pre=None, kinds=None, modes=None, arm=None, ns2=False, pre_inst=''):
    return dict(name=name, x=x, fail=fail, fixes=fixes, y=y, setup=list(setup), pre=pre or {}, kinds=kinds,
                modes=modes, arm=arm, ns2=ns2, pre_inst=pre_inst)


ALLMODES = ('string', 'file', 'inc1', 'inc2', 'dep1', 'dep2')
NODEP = ('string', 'file', 'inc1', 'inc2')
RX_SCENARIOS = [
    _rx('missing-superclass',
        QX + 'class RX_A { [Key] uint8 k; };\n@PRE@class RX_D : RX_Base { uint8 d; };\n'
             'instance of RX_D { k = 2; b = 3; d = 4; };\n',
        'MOFDependencyError',
        [[('compile', QKEY + 'class RX_Base { [Key] uint8 k; uint8 b; };\n')],
         [('write', 'RX_Base.mof', QKEY + 'class RX_Base { [Key] uint8 k; uint8 b; };\n')]],
        QX + 'class RX_E : RX_Base { uint8 e; };\ninstance of RX_E { k = 7; b = 1; e = 2; };\n',
        pre_inst='instance of RX_A as $a@U@ { k = 1; };\n'),
    _rx('missing-reference-class', QX + RX_LINK, 'MOFDependencyError',
        [[('compile', RX_T)], [('write', 'sub/RX_T.mof', RX_T)]],
        QX + '[Association] class RX_M { [Key] RX_T ref x; [Key] RX_T ref y; };\n'
             'instance of RX_T as $c@U@ { k = 5; };\ninstance of RX_M { x = $c@U@; y = $c@U@; };\n'),
    _rx('missing-reference-class-of-method-parameter',
        QX + 'class RX_P { [Key] uint8 k; uint8 m([In] RX_T ref t, [In] uint8 n); };\ninstance of RX_P { k = 1; };\n',
        'MOFDependencyError', [[('compile', RX_T)], [('write', 'RX_T.mof', RX_T)]],
        QX + 'class RX_P2 { [Key] uint8 k; uint8 m2([In] RX_T ref t[]); };\n'),
    _rx('missing-embeddedinstance-class',
        QX + 'class RX_H { [Key] uint8 k; [EmbeddedInstance("RX_T")] string e; };\n'
             'instance of RX_H { k = 1; e = "instance of RX_T { k = 2; };"; };\n',
        'MOFDependencyError', [[('compile', RX_T)], [('write', 'RX_T.mof', RX_T)]],
        QX + 'class RX_H2 { [Key] uint8 k; [EmbeddedInstance("RX_T")] string e[]; };\n'
             'instance of RX_H2 { k = 1; e = {"instance of RX_T { k = 3; };"}; };\n'),
    _rx('missing-class-inside-embedded-value',
        'instance of RX_H { k = 1; e = "instance of RX_T { k = 2; };"; };\n',
        'MOFDependencyError', [[('compile', RX_T)], [('write', 'RX_T.mof', RX_T)]],
        'instance of RX_H { k = 9; e = "instance of RX_T { k = 8; };"; };\ninstance of RX_T { k = 8; };\n',
        setup=[('compile', QX + 'class RX_H { [Key] uint8 k; [EmbeddedObject] string e; };\n')]),
    _rx('missing-qualifier-declarations',
        'class RX_Q { [Key] uint8 k; [Description("d")] string s; };\ninstance of RX_Q { k = 1; s = "x"; };\n',
        'MOFDependencyError',
        [[('compile', QX)], [('write', 'q/qualifiers.mof', QX)], [('direct-qual', QX)],
         [('write', 'qualifiers_optional.mof', QX)]],
        'class RX_Q2 { [Key, Description("e")] uint8 k; };\ninstance of RX_Q2 { k = 2; };\n'),
    _rx('missing-one-qualifier-declaration',
        QKEY + 'class RX_Q { [Key] uint8 k; [Description("d")] string s; };\ninstance of RX_Q { k = 1; s = "x"; };\n',
        'MOFDependencyError', [[('compile', QDESC)], [('direct-qual', QDESC)]],
        'class RX_Q3 { [Description("z")] uint8 p; };\n'),
    _rx('instance-of-missing-class',
        'instance of RX_T as $a@U@ { k = 1; };\ninstance of RX_T { k = 2; };\n',
        'MOFDependencyError', [[('compile', RX_T)], [('write', 'RX_T.mof', RX_T)]],
        QX + 'class RX_U : RX_T { uint8 u; };\ninstance of RX_U { k = 3; u = 1; };\n'),
    _rx('missing-include-file',
        QX + 'class RX_A { [Key] uint8 k; };\n@PRE@#pragma include("inc/part.mof")\n'
             'class RX_B : RX_I { uint8 b; };\n',
        'OSError', [[('write', 'inc/part.mof', 'class RX_I { uint8 i; };\n')]],
        '#pragma include("inc/part.mof")\nclass RX_C : RX_I { uint8 c; };\n',
        pre_inst='instance of RX_A { k = 1; };\n'),
    _rx('dependency-file-with-missing-dependency',
        QX + 'class RX_D : RX_Base { uint8 d; };\ninstance of RX_D { k = 1; d = 2; };\n',
        'MOFDependencyError', [[('write', 'RX_Root.mof', RX_ROOT)], [('compile', RX_ROOT)]],
        QX + 'class RX_E : RX_Root { [Key] uint8 k; };\ninstance of RX_E { k = 4; r = 1; };\n',
        pre={'RX_Base.mof': 'class RX_Base : RX_Root { [Key] uint8 k; };\n'}),
    _rx('dependency-file-chain-with-missing-dependency',
        QX + 'class RX_D : RX_Base { uint8 d; };\ninstance of RX_D { k = 1; d = 2; m = 3; };\n',
        'MOFDependencyError', [[('write', 'deep/er/RX_Root.mof', RX_ROOT)], [('compile', RX_ROOT)]],
        QX + 'class RX_E : RX_Mid { [Key] uint8 k2; };\n',
        pre={'RX_Base.mof': 'class RX_Base : RX_Mid { [Key] uint8 k; };\n',
             'deep/RX_Mid.mof': 'class RX_Mid : RX_Root { uint8 m; };\n'}),
    _rx('dependency-file-with-syntax-error',
        QX + 'class RX_D : RX_Base { uint8 d; };\ninstance of RX_D { k = 1; d = 2; };\n',
        'MOFParseError', [[('write', 'RX_Base.mof', 'class RX_Base { [Key] uint8 k; };\n')]],
        QX + 'class RX_E : RX_Base { uint8 e; };\n',
        pre={'RX_Base.mof': 'class RX_Base { [Key] uint8 k }\n'}),
    _rx('reference-dependency-file-with-missing-dependency', QX + RX_LINK, 'MOFDependencyError',
        [[('write', 'RX_Root.mof', RX_ROOT)], [('compile', RX_ROOT)]],
        QX + 'class RX_E : RX_Root { [Key] uint8 k; };\n',
        pre={'RX_T.mof': 'class RX_T : RX_Root { [Key] uint8 k; };\n'}),
    _rx('instance-class-file-with-missing-dependency',
        QX + 'instance of RX_T as $a@U@ { k = 1; r = 2; };\n', 'MOFDependencyError',
        [[('write', 'RX_Root.mof', RX_ROOT)], [('compile', RX_ROOT)]],
        QX + 'class RX_E : RX_Root { [Key] uint8 k; };\n',
        pre={'RX_T.mof': 'class RX_T : RX_Root { [Key] uint8 k; };\n'}),
    _rx('qualifier-file-with-missing-include',
        'class RX_Q { [Key] uint8 k; };\ninstance of RX_Q { k = 1; };\n', 'OSError',
        [[('write', 'q2.mof', QX)]],
        'class RX_Q2 { [Key, Description("e")] uint8 k; };\n',
        pre={'qualifiers.mof': '#pragma include("q2.mof")\n'}),
    _rx('undefined-alias',
        'instance of RX_L { a = $p@U@; b = $q@U@; w = 1; };\n', 'MOFParseError',
        [[('compile', 'instance of RX_T as $p@U@ { k = 1; };\ninstance of RX_T as $q@U@ { k = 2; };\n')]],
        'instance of RX_L { a = $q@U@; b = $p@U@; w = 2; };\n',
        setup=[('compile', QX + 'class RX_T { [Key] uint8 k; };\n'
                                '[Association] class RX_L { [Key] RX_T ref a; [Key] RX_T ref b; uint8 w; };\n')]),
    _rx('namespace-pragma-to-missing-namespace',
        QX + 'class RX_A { [Key] uint8 k; };\n#pragma namespace("@NS2@")\n' + QX +
        'class RX_N { [Key] uint8 k; };\ninstance of RX_N { k = 1; };\n',
        'known-escape', [[('addns', '@NS2@')]],
        '#pragma namespace("@NS2@")\n' + QX + 'class RX_N2 { [Key] uint8 k; };\n',
        kinds=('script', 'faked-direct'), modes=NODEP, ns2=True),
    _rx('missing-superclass-after-namespace-pragma',
        QX + 'class RX_A { [Key] uint8 k; };\n#pragma namespace("@NS2@")\n' + QX +
        'class RX_D : RX_Base { uint8 d; };\ninstance of RX_D { k = 2; b = 3; d = 4; };\n',
        'MOFDependencyError',
        [[('compile', QKEY + 'class RX_Base { [Key] uint8 k; uint8 b; };\n', '@NS2@')],
         [('write', 'RX_Base.mof', QKEY + 'class RX_Base { [Key] uint8 k; uint8 b; };\n')]],
        '#pragma namespace("@NS2@")\n' + QX + 'class RX_E : RX_Base { uint8 e; };\n',
        setup=[('addns', '@NS2@')], modes=NODEP, ns2=True),
]
RX_REJECT_OPS = ['CreateClass', 'CreateInstance', 'SetQualifier']
RX_REJECT_MORE = ['GetClass', 'EnumerateQualifiers']
RX_REJECT_CODES = [_K.CIM_ERR_FAILED, _K.CIM_ERR_ACCESS_DENIED, _K.CIM_ERR_INVALID_PARAMETER, _K.CIM_ERR_NOT_FOUND,
                   _K.CIM_ERR_NOT_SUPPORTED, _K.CIM_ERR_INVALID_SUPERCLASS, _K.CIM_ERR_ALREADY_EXISTS,
                   _K.CIM_ERR_INVALID_CLASS]
# failures that create nothing (for "two different failures before the fix")
RX_OTHER_FAILURES = ['class RX_Z1 : RX_NoSuchSuper { };\n', 'instance of RX_NoSuchClass { k = 1; };\n',
                     'class RX_Z2 { [RX_NoSuchQual] uint8 p; };\n', 'class RX_Z3 { uint8 p = @; };\n',
                     '#pragma include("rx_no_such_file.mof")\n', 'class RX_Z4 { RX_Z4 ref r = $rx_undefined; };\n',
                     'class RX_Z5 {', '#pragma namespace("//h/x")\nclass RX_Z6 { };\n']


def rx_reject_scenarios(ops, idxs, codes):
    out = []
    for op in ops:
        for idx in idxs:
            for code in codes:
                out.append(_rx('repository-rejects-%s-call-%d-status-%d' % (op, idx, code), RX_REPO, 'any',
                               [[('accept',)]], RX_REPO_Y, arm=(op, idx, code)))
    return out


class Rejector:
    """Makes one operation of a repository object raise a CIMError at its idx-th call (any repository kind)."""

    def __init__(self, target, op, idx, code, ns):
        self.target, self.op, self.idx, self.code, self.n, self.fired, self.ns = target, op, idx, code, 0, [], ns
        self.orig = getattr(target, op)
        setattr(target, op, self)

    def __call__(self, *args, **kwargs):
        if kwargs.get('namespace') != self.ns and not any(isinstance(a, str) and a == self.ns for a in args):
            return self.orig(*args, **kwargs)      # e.g. the probe in another namespace
        self.n += 1
        if self.n == self.idx:
            self.fired.append((self.op, self.code))
            raise CIMError(self.code, 'scripted rejection of %s call %d' % (self.op, self.n))
        return self.orig(*args, **kwargs)

    def disarm(self):
        try:
            delattr(self.target, self.op)
        except AttributeError:
            pass


def rx_handle(env):
    if env.kind == 'script':
        return env.repo
    if env.kind.startswith('faked'):
        return env.comp.inner.handle
    return env.comp.handle


_QDECLS = {}


def rx_qualifier_declarations(text):
    if text not in _QDECLS:
        h = MOFWBEMConnection()
        MOFCompiler(h, log_func=None).compile_string(text, 'q')
        _QDECLS[text] = list(h.qualifiers['q'].values())
    return [q.copy() for q in _QDECLS[text]]


def rx_action(env, act, ns, d):
    """Apply one set-up/fix action. -> None | text describing why it failed"""
    what = act[0]
    if what == 'compile':
        target = act[2] if len(act) > 2 else ns
        kind, x = attempt(lambda: env.comp.compile_string(act[1], target))
        return None if kind == 'ok' else 'compiling the missing piece: %s: %s' % (type(x).__name__, str(x)[:200])
    if what == 'write':
        p = os.path.join(d, act[1])
        os.makedirs(os.path.dirname(p), exist_ok=True)
        with open(p, 'w', encoding='utf-8', newline='') as f:
            f.write(act[2])
        return None
    if what == 'direct-qual':
        if env.kind.startswith('faked'):
            env.comp._ensure(ns)
        for q in rx_qualifier_declarations(act[1]):
            rx_handle(env).SetQualifier(q, namespace=ns or rx_handle(env).default_namespace)
        return None
    if what == 'addns':
        if env.kind == 'script':
            env.repo.missing_ns = set(env.repo.missing_ns) - {act[1]}
        elif env.kind.startswith('faked'):
            env.comp._ensure(act[1])
        return None
    if what == 'accept':
        return None
    raise AssertionError(act)


def rx_package(mode, text, d, px='RX_'):
    """Write the files that carry `text` in the given mode. -> (top text | None, top file | None, {path: text})"""
    files = {}
    if mode == 'string':
        return text, None, files
    if mode == 'file':
        files['x.mof'] = text
        top = 'x.mof'
    elif mode in ('inc1', 'inc2'):
        files['f0.mof'] = ('class RX_W0 { };\n#pragma include("s/f1.mof")\nclass RX_W0b { };\n').replace('RX_', px)
        if mode == 'inc1':
            files['s/f1.mof'] = text
        else:
            files['s/f1.mof'] = ('class RX_W1 { };\n#pragma include("f2.mof")\nclass RX_W1b { };\n').replace('RX_', px)
            files['s/f2.mof'] = text
        top = 'f0.mof'
    else:
        # the dependency file defines its class after the text: a failure in the text leaves the dependency unresolved
        if mode == 'dep1':
            files[px + 'S1.mof'] = text + 'class %sS1 { uint8 s1; };\n' % px
        else:
            files[px + 'S1.mof'] = 'class %sS1 : %sS2 { uint8 s1; };\n' % (px, px)
            files['sub/%sS2.mof' % px] = text + 'class %sS2 { uint8 s2; };\n' % px
        top = None
    out = {}
    for rel, t in files.items():
        p = os.path.join(d, rel)
        os.makedirs(os.path.dirname(p), exist_ok=True)
        with open(p, 'w', encoding='utf-8', newline='') as f:
            f.write(t)
        out[p] = t
    if top is None:
        return 'class %sTOP : %sS1 { uint8 top; };\n' % (px, px), None, out
    return None, os.path.join(d, top), out


def rx_run(env, pack, ns):
    text, path, _ = pack
    if path is not None:
        return env.comp.compile_file(path, ns)
    return env.comp.compile_string(text, ns)


def rx_snapshot(env, nss):
    """-> {ns: {'classes': {lname: CIMClass}, 'quals': {lname: decl}, 'instances': [CIMInstance]}}"""
    out = {}
    for ns in nss:
        if env.kind == 'script':
            classes = dict(env.repo.cls.get(ns, {}))
            quals = dict(env.repo.qual.get(ns, {}))
            insts = list(env.repo.inst.get(ns, {}).values())
        elif env.kind == 'faked-direct':
            conn = env.comp.conn
            try:
                classes = {c.classname.lower(): c for c in conn.EnumerateClasses(
                    namespace=ns, DeepInheritance=True, LocalOnly=True, IncludeQualifiers=True,
                    IncludeClassOrigin=True)}
                quals = {q.name.lower(): q for q in conn.EnumerateQualifiers(namespace=ns)}
            except CIMError:
                classes, quals = {}, {}
            insts = env.view.view_instances(ns)
        else:
            h = rx_handle(env)
            classes = {k.lower(): v for k, v in h.classes.get(ns, {}).items()}
            quals = {k.lower(): v for k, v in h.qualifiers.get(ns, {}).items()}
            insts = []
            for i in h.instances.get(ns, []):
                # MOFWBEMConnection.CreateInstance appends without looking for an existing instance (documented):
                # what was created before the failure point is there twice after the retry
                if not any(i == j for j in insts):
                    insts.append(i)
        out[ns] = dict(classes=classes, quals=quals, instances=insts)
    return out


def _brief(o):
    try:
        return o.tomof().replace('\n', ' ')[:300]
    except Exception:  # noqa
        return repr(o)[:300]


def rx_diff(got, want, exact):
    """-> None | description of the first difference (got: reused compiler, want: the reference)"""
    for ns in want:
        for sect in ('quals', 'classes'):
            g, w = got[ns][sect], want[ns][sect]
            for name, o in w.items():
                if name not in g:
                    return '%s %s:%s is missing' % (sect, ns, name)
                if g[name] != o:
                    return '%s %s:%s differs: got %s | expected %s' % (sect, ns, name, _brief(g[name]), _brief(o))
            if exact:
                for name in g:
                    if name not in w:
                        return '%s %s:%s is there but not expected: %s' % (sect, ns, name, _brief(g[name]))
        g, w = got[ns]['instances'], want[ns]['instances']
        for o in w:
            if not any(o == j for j in g):
                return 'instance %s is missing or differs; got %s' % (_brief(o), [_brief(j) for j in g][:4])
        if exact:
            for o in g:
                if not any(o == j for j in w):
                    return 'instance %s is there but not expected' % _brief(o)
    return None


class RetryBench:
    """One reused compiler (and one reference compiler that never sees a failure) per repository kind."""

    def __init__(self, kind):
        self.kind = kind
        self.root = tempfile.mkdtemp(prefix='rx_', dir=TMP)
        self.env = Env(kind, search_paths=[self.root])
        self.clean = None
        self.n = 0
        self.fresh_every = 24 if QUICK else 16
        self.stats = {}

    def reference_env(self, fresh):
        if fresh:
            return Env(self.kind, search_paths=[self.root])
        if self.clean is None:
            self.clean = Env(self.kind, search_paths=[self.root])
        return self.clean

    def note(self, what):
        self.stats[what] = self.stats.get(what, 0) + 1


_RXU = [0]
EMBEDDED_MODE_MSG = re.compile(r'Invalid compile of CIM(Class|QualifierDeclaration) ')
SERVER_POLICY = (_K.CIM_ERR_CLASS_HAS_CHILDREN, _K.CIM_ERR_CLASS_HAS_INSTANCES)


def rx_subact(sub, a):
    return tuple(sub(v) if i and isinstance(v, str) else v for i, v in enumerate(a))


def rx_hints(env, sc):
    hints = {'file', 'embedded'}
    if env.kind == 'script' or sc['arm']:
        hints.add('repo')
    if sc['arm']:
        hints.add('reject')
    if env.kind.startswith('faked'):
        hints.add('mock')
    return hints


def rx_reference(ref, setup, pieces, pack, ns, d, concat):
    """The same content on a compiler that never saw the failure. -> ('ok', None) | (kind, exception or text)"""
    for a in setup:
        why = rx_action(ref, a, ns, d)
        if why:
            return 'setup', why
    if concat:
        text = ''.join(a[1] for a in pieces) + pack[0]
        return attempt(lambda: ref.comp.compile_string(text, ns))
    for a in pieces:
        why = rx_action(ref, a, ns, d)
        if why:
            return 'piece', why
    return attempt(lambda: rx_run(ref, pack, ns))


def rx_judge(bench, name, variant, ref, nss, res3, resr, exact, detail):
    """Step 3 on the reused compiler against the reference."""
    env = bench.env
    (kind3, x3), (kindr, xr) = res3, resr
    err3 = '%s: %s' % (type(x3).__name__, str(x3)[:300]) if kind3 != 'ok' else None
    errr = (xr if isinstance(xr, str) else '%s: %s' % (type(xr).__name__, str(xr)[:300])) if kindr != 'ok' else None
    if kind3 == 'ok' and kindr == 'ok':
        why = rx_diff(rx_snapshot(env, nss), rx_snapshot(ref, nss), exact)
        if why:
            R.violation('repository-differs-after-retry-' + name, why=why, **detail)
        bench.note('compared')
        return
    if kind3 != 'ok' and kindr == 'ok':
        if env.kind == 'faked-direct' and isinstance(x3, MOFRepositoryError) and x3.cim_error is not None and \
                x3.cim_error.status_code in SERVER_POLICY:
            # the mock server does not let a class that has instances or subclasses be modified: what the failed
            # attempt created before its failure point stands in the way of the retry (the server's policy)
            bench.note('server-policy')
            return
        R.violation(('other-MOF' if variant == 'other' else 'same-MOF') + '-fails-after-fix-' + name, error=err3,
                    **detail)
        return
    if kind3 != 'ok' and type(x3) is type(xr) and isinstance(x3, MOFParseError) and \
            EMBEDDED_MODE_MSG.match(x3.msg or '') and EMBEDDED_MODE_MSG.match(xr.msg or '') and \
            'search path' in detail.get('fix_kind', ''):
        R.violation('known:class-file-from-search-path-is-compiled-in-embedded-value-mode-and-rejected',
                    what='A class needed by an embedded instance value is looked up on the search path, but its MOF '
                         'file is then compiled while the compiler is still in embedded-value mode and is rejected '
                         '(MOFParseError "Invalid compile of CIMQualifierDeclaration/CIMClass ... Compiler in mode to '
                         'compile embedded instance", without position), also on a fresh compiler: instance of RX_H '
                         '{ k = 1; e = "instance of RX_T { k = 2; };"; }; with [EmbeddedObject] string e and '
                         'RX_T.mof on the search path.',
                    error=err3, **detail)
        bench.note('embedded-mode')
        return
    R.violation('retry-reference-fails-' + name, reference_error=errr, reused_compiler=err3 or 'ok', **detail)


def rx_scenario(bench, sc, fixi, mode, variant, other=None, fresh=None, default_ns=False):
    """variant: 'retry' (X again) | 'other' (a different MOF using the names that were missing) | 'two' (a second,
    different failure before the fix, then X again). default_ns: compile with ns=None (the default namespace of the
    repository, shared by all such scenarios: own class names, no exact comparison).
    -> False if the scenario does not apply"""
    env = bench.env
    if sc['kinds'] is not None and env.kind not in sc['kinds']:
        return False
    if sc['modes'] is not None and mode not in sc['modes']:
        return False
    if default_ns and sc['ns2']:
        return False
    bench.n += 1
    _RXU[0] += 1
    u = str(_RXU[0])
    ns, ns2 = (None if default_ns else new_ns()), 'rxo' + u
    real_ns = ns or rx_handle(env).default_namespace
    d = os.path.join(bench.root, 's' + u)
    os.makedirs(d)
    # the mock server refuses to modify a class that has instances: nothing of that sort before the failure point
    pre_inst = '' if env.kind == 'faked-direct' else sc['pre_inst']

    def sub(t):
        t = t.replace('@PRE@', pre_inst).replace('@U@', u).replace('@NS2@', ns2)
        return t.replace('RX_', 'R%s_' % u) if default_ns else t

    fixi = fixi % len(sc['fixes'])
    fix = [rx_subact(sub, a) for a in sc['fixes'][fixi]]
    setup = [rx_subact(sub, a) for a in sc['setup']]
    x, y = sub(sc['x']), sub(sc['y'])
    key = (env.kind, sc['name'], fixi, mode, variant, other, default_ns)
    fix_kind = ', '.join(sorted({'file on the search path' if a[0] == 'write' else a[0] for a in fix}))
    detail = dict(family='retry-after-fix', scenario=sc['name'], mode=mode, variant=variant, repo=env.kind,
                  ns=ns or 'None (the default namespace %s)' % real_ns, mof_x=x, fix=repr(fix)[:600], fix_kind=fix_kind)
    if setup:
        detail['setup'] = repr(setup)[:700]
    if sc['pre']:
        detail['search_path_files_before'] = dict(sc['pre'])
    hints = rx_hints(env, sc)
    nss = [real_ns] + ([ns2] if sc['ns2'] else [])
    comp0 = env.comp
    rej = None
    try:
        # ---- the reused compiler
        if env.kind == 'script' and sc['ns2']:
            env.repo.missing_ns = {ns2}         # this repository does not create namespaces on demand
        pre = {sub(rel): sub(t) for rel, t in sc['pre'].items()}
        for rel, t in pre.items():
            rx_action(env, ('write', rel, t), ns, d)
        for a in setup:
            why = rx_action(env, a, ns, d)
            if why:
                R.violation('retry-scenario-set-up-fails', why=why, **detail)
                return True
        pack = rx_package(mode, x, d, 'R%s_' % u if default_ns else 'RX_')
        fmap = dict(pack[2])
        for rel, t in pre.items():
            fmap[os.path.join(d, rel)] = t
        if sc['arm']:
            op, idx, code = sc['arm']
            if env.kind == 'script':
                env.repo.arm({op: (idx, code)})
            else:
                rej = Rejector(rx_handle(env), op, idx, code, real_ns)
        kind1, x1, _ = case(env, 'retry-after-fix', key, pack[0], ns=real_ns, run=lambda: rx_run(env, pack, ns), files=fmap,
                            hints=hints, expect='any' if sc['arm'] else 'error', force=(bench.n % 5 == 0),
                            extra=dict(scenario=sc['name'], mode=mode, variant=variant))
        if env.kind == 'script':
            env.repo.arm(None)
        if rej is not None:
            rej.disarm()
            rej = None
        if env.comp is not comp0:
            return True                         # the probe after the failure failed (reported): compiler replaced
        if kind1 == 'ok' and not sc['arm']:
            return True                         # reported by case() as invalid-input-accepted
        bench.note('first attempt: ' + (kind1 if kind1 != 'mce' else type(x1).__name__))
        if kind1 != 'ok':
            detail['first_failure'] = '%s: %s' % (type(x1).__name__, str(x1)[:200])
        want = sc['fail']
        if kind1 != 'ok' and want not in ('any', 'known-escape'):
            okk = (kind1 == 'os') if want == 'OSError' else (kind1 == 'mce' and type(x1).__name__ == want)
            if not okk:
                R.violation('first-failure-of-unexpected-kind-' + sc['name'], expected=want, **detail)
        if kind1 == 'mce' and x1.file is not None and mode != 'string' and x1.lineno is not None and \
                not any(same_path(x1.file, p) for p in fmap):
            R.violation('error-names-wrong-file', reported=repr(x1.file), expected=sorted(fmap), **detail)
        if variant == 'two':
            t2 = RX_OTHER_FAILURES[(other or 0) % len(RX_OTHER_FAILURES)]
            detail['second_failure'] = t2
            case(env, 'retry-after-fix', key + ('second',), t2, ns=real_ns, hints=hints, expect='error',
                 run=lambda: env.comp.compile_string(t2, ns))
            if env.comp is not comp0:
                return True
        # ---- remove the cause, compile again
        for a in fix:
            why = rx_action(env, a, ns, d)
            if why:
                R.violation('missing-piece-fails-after-failure-' + sc['name'], why=why, **detail)
                return True
        if variant == 'other':
            pack3 = (y, None, {})
            detail['mof_y'] = y
        else:
            pack3 = pack
        R.case(key + ('again',))
        res3 = attempt(lambda: rx_run(env, pack3, ns))
        # ---- the reference: a compiler that never saw a failure, nothing yet in these namespaces
        if fresh is None:
            fresh = default_ns or bench.n % bench.fresh_every == 0
        ref = bench.reference_env(fresh)
        detail['reference'] = 'fresh compiler' if fresh else 'compiler without failures'
        pieces = [a for a in fix if a[0] not in ('write', 'accept')]
        # (missing piece + X) as one compilation unit where that can be written down, else piece then X
        concat = (variant == 'other' or mode == 'string') and bench.n % 2 == 1 and \
            all(a[0] == 'compile' and len(a) == 2 for a in pieces)
        resr = rx_reference(ref, setup, pieces, pack3, ns, d, concat)
        rx_judge(bench, sc['name'], variant, ref, nss, res3, resr, variant != 'other' and not default_ns, detail)
        return True
    finally:
        if rej is not None:
            rej.disarm()
        if env.kind == 'script':
            env.repo.arm(None)
            env.repo.missing_ns = frozenset()
        shutil.rmtree(d, ignore_errors=True)


def rx_pair(bench, sa, sb, fresh):
    """Two different failures (each in its own namespace, with its own names) before either is fixed; then both
    are fixed, then both compiled again (in reverse order)."""
    env = bench.env
    for s in (sa, sb):
        if (s['kinds'] is not None and env.kind not in s['kinds']) or s['arm'] or s['ns2']:
            return
    bench.n += 1
    st = []
    for s in (sa, sb):
        _RXU[0] += 1
        u = str(_RXU[0])
        d = os.path.join(bench.root, 's' + u)
        os.makedirs(d)
        pre_inst = '' if env.kind == 'faked-direct' else s['pre_inst']
        sub = lambda t, u=u, pre_inst=pre_inst: t.replace('@PRE@', pre_inst).replace('@U@', u).replace(  # noqa: E731
            'RX_', 'R%s_' % u)
        st.append(dict(sc=s, u=u, d=d, ns=new_ns(), sub=sub, x=sub(s['x']),
                       pre={sub(k): sub(v) for k, v in s['pre'].items()},
                       setup=[rx_subact(sub, a) for a in s['setup']],
                       fix=[rx_subact(sub, a) for a in s['fixes'][0 if not st else -1]]))
    key = (env.kind, 'pair', sa['name'], sb['name'])
    detail = dict(family='retry-after-fix', scenario='%s then %s' % (sa['name'], sb['name']), variant='pair',
                  repo=env.kind)
    comp0 = env.comp
    try:
        for e in st:
            for rel, t in e['pre'].items():
                rx_action(env, ('write', rel, t), e['ns'], e['d'])
            for a in e['setup']:
                why = rx_action(env, a, e['ns'], e['d'])
                if why:
                    R.violation('retry-scenario-set-up-fails', why=why, **detail)
                    return
        for e in st:
            fmap = {os.path.join(e['d'], rel): t for rel, t in e['pre'].items()}
            case(env, 'retry-after-fix', key + (e['sc']['name'],), e['x'], ns=e['ns'], files=fmap,
                 hints=rx_hints(env, e['sc']), expect='error')
            if env.comp is not comp0:
                return
        for e in st:
            for a in e['fix']:
                why = rx_action(env, a, e['ns'], e['d'])
                if why:
                    R.violation('missing-piece-fails-after-failure-' + e['sc']['name'], why=why, mof_x=e['x'], **detail)
                    return
        ref = bench.reference_env(fresh)
        for e in reversed(st):
            R.case(key + (e['sc']['name'], 'again'))
            pack = (e['x'], None, {})
            res3 = attempt(lambda: rx_run(env, pack, e['ns']))
            resr = rx_reference(ref, e['setup'], [a for a in e['fix'] if a[0] != 'write'], pack, e['ns'], e['d'], False)
            fix_kind = ', '.join(sorted({'file on the search path' if a[0] == 'write' else a[0] for a in e['fix']}))
            rx_judge(bench, e['sc']['name'], 'pair', ref, [e['ns']], res3, resr, True,
                     dict(detail, mof_x=e['x'], fix=repr(e['fix'])[:600], fix_kind=fix_kind, ns=e['ns'],
                          reference='fresh compiler' if fresh else 'compiler without failures'))
    finally:
        for e in st:
            shutil.rmtree(e['d'], ignore_errors=True)


def f_retry():
    kinds = ('mof', 'script', 'faked-direct', 'faked-cached')
    if QUICK:
        rejects = rx_reject_scenarios(RX_REJECT_OPS, (1, 2), RX_REJECT_CODES[:4])
    else:
        rejects = rx_reject_scenarios(RX_REJECT_OPS + RX_REJECT_MORE, (1, 2, 3), RX_REJECT_CODES)
    n = 0
    for ki, kindname in enumerate(kinds):
        t0 = time.time()
        bench = RetryBench(kindname)
        for si, sc in enumerate(RX_SCENARIOS):
            modes = sc['modes'] or ALLMODES
            for fi in range(len(sc['fixes'])):
                for mi, mode in enumerate(modes):
                    for vi, variant in enumerate(('retry', 'other', 'two')):
                        n += 1
                        if QUICK:
                            # every scenario as a plain string retry on every repository (every fix on the first
                            # two); the rest of the product rotates
                            base = mode == 'string' and variant == 'retry' and (ki < 2 or fi == 0)
                            if not base and (si + fi * 5 + mi * 3 + vi * 7 + ki * 11) % 17:
                                continue
                        elif ki >= 2 and not (mode == 'string' and variant == 'retry') and n % 2:
                            continue                # the mock server is slow: half of the product
                        if variant != 'two':
                            others = [None]
                        elif QUICK:
                            others = [n]
                        else:
                            others = [n, n + 3, n + 6]
                        for o in others:
                            rx_scenario(bench, sc, fi, mode, variant, other=o)
        dbg('retry', kindname, bench.n, 'scenarios', '%.1fs' % (time.time() - t0))
        for ri, sc in enumerate(rejects):
            for mi, mode in enumerate(('string', 'inc1', 'dep1')):
                for vi, variant in enumerate(('retry', 'other', 'two')):
                    n += 1
                    if QUICK and (ri * 5 + mi * 3 + vi + ki * 7) % (5 if kindname == 'script' else 16):
                        continue
                    if not QUICK and (mode != 'string' or ki >= 2) and (ri + mi + vi) % 2:
                        continue
                    rx_scenario(bench, sc, 0, mode, variant, other=n if variant == 'two' else None)
        dbg('retry', kindname, bench.n, 'scenarios', '%.1fs' % (time.time() - t0))
        simple = [s for s in RX_SCENARIOS if not s['ns2']]
        for ai, sa in enumerate(simple):
            for bi, sb in enumerate(simple):
                if ai == bi or (QUICK and (ai * 3 + bi + ki * 5) % 19) or (not QUICK and ki >= 2 and (ai + bi) % 2):
                    continue
                n += 1
                rx_pair(bench, sa, sb, fresh=(n % (24 if QUICK else 16) == 0))
        dbg('retry', kindname, bench.n, 'scenarios', '%.1fs' % (time.time() - t0), sorted(bench.stats.items()))
        # ns=None: the default namespace of the repository (one more reused compiler, a fresh reference each time)
        bench = RetryBench(kindname)
        for si, sc in enumerate(RX_SCENARIOS + rejects[:6]):
            for fi in range(len(sc['fixes'])):
                for vi, variant in enumerate(('retry', 'other', 'two')):
                    n += 1
                    if (si * 3 + fi + vi * 5 + ki * 2) % (17 if QUICK else 3):
                        continue
                    # a default namespace that has no qualifier declarations yet: a new compiler and repository
                    b = RetryBench(kindname) if 'qualifier' in sc['name'] else bench
                    rx_scenario(b, sc, fi, ('string', 'inc1', 'dep1')[n % 3] if vi else 'string', variant,
                                other=n if variant == 'two' else None, default_ns=True)
        dbg('retry', kindname, 'default namespace', bench.n, 'scenarios', sorted(bench.stats.items()))


# ----------------------------------------------------------------------------------------------------------------
FAMILIES = [
    ('strings', lambda: f_strings(Env('mof'))),
    ('numbers', lambda: f_numbers(Env('mof'))),
    ('matrix', lambda: f_matrix(Env('none'))),
    ('pragmas', lambda: f_pragmas(Env('mof'))),
    ('includes', lambda: (f_includes(Env('mof')), f_includes(Env('script')))),
    ('dependencies', f_dependencies),
    ('positions', lambda: f_positions(Env('mof'))),
    ('handpicked', lambda: (f_handpicked(Env('mof')), f_handpicked(Env('script')))),
    ('repository', lambda: f_repository(Env('script'))),
    ('sequences', f_sequences),
    ('mock', f_mock),
    ('mutations', lambda: f_mutations(Env('mof'))),
    ('random', lambda: f_random(Env('mof'))),
    ('retry', f_retry),
]


def main():
    only = set(filter(None, os.environ.get('C09_ONLY', '').split(',')))
    try:
        for name, f in FAMILIES:
            if only and name not in only:
                continue
            t0, c0 = time.time(), R.cases
            f()
            dbg('family %-12s %6d cases %6.2fs' % (name, R.cases - c0, time.time() - t0))
    finally:
        shutil.rmtree(TMP, ignore_errors=True)
        if not _LEXTAB_EXISTED and os.path.exists(_LEXTAB_STRAY):
            try:
                os.remove(_LEXTAB_STRAY)
            except OSError:
                pass
        sys.stdout = _real_stdout
    R.finish()


main()
