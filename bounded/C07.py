"""Bounded stand-in for C07: WBEM URIs round-trip and canonical URIs respect path equality.

Oracles (all written here, independent of pywbem's regexes and printers):
  * a typed reference READER for printed URIs (hand-written scanner + DSP0004 literal grammars): what pywbem
    prints must read back, type by type, as the path model it was printed from;
  * a reference PRINTER producing DSP0207 texts (also lexical forms pywbem never prints: hex/octal/binary
    integers, exponent/sign forms, scheme prefixes, optional slash/colon, single-quoted char16, escape-everything
    strings): what pywbem parses from them must be the model they were printed from;
  * the path model itself (plain tuples): from_wbem_uri(to_wbem_uri(p)) is compared attribute by attribute with
    the model under the documented widening (intN -> int, realN -> float, char16 -> str, strings that read as
    datetimes / URIs may come back converted), and with pywbem's own ==;
  * metamorphic invariant: case / key-order variants of a path have the identical canonical URI;
  * totality: from_wbem_uri on arbitrary text returns an object of the right class or raises ValueError, and
    whatever it returns round-trips again.
"""
import itertools
import math
import random
import re
import warnings

from bounded.common import Run
from pywbem import CIMInstanceName, CIMClassName, CIMDateTime, Char16
from pywbem._cim_types import type_from_name
from pywbem._cim_http import get_cimobject_header

warnings.simplefilter('ignore')

R = Run('instance/class paths: 10 hosts x 8 namespaces x 4 classnames grid; single-key paths over 175 boundary '
        'leaf values (string/char16/boolean/intN min,max/realN incl INF,NaN,exponent/datetime) + all strings of '
        'length <= 3 (thorough 4) over a 10-char escaping alphabet; 2-3 key paths with case-mixed names; nested '
        'references to depth 3; seeded random composite paths; each x 6 print routes (standard, historical, '
        'canonical, cimobject, str(), CIMObject header) + 3 case/order variants for the canonical form + '
        'reference-printed alternative lexical forms; parser totality on all texts of length <= 4 (thorough 5) '
        'over a 14-char alphabet, key-value texts <= 4 (5), quoted-value texts <= 4 (5), datetime 1-2 char '
        'substitutions and seeded mutations of valid URIs')

QUICK = R.tier == 'quick'
RND = random.Random(R.seed)

# ----------------------------------------------------------------------------------------------------------------
# violation buffering: unexpected ids first (common.Run keeps only the first 5 ids)
_VIOL = []


def violation(vid, **detail):
    if not any(v[0] == vid for v in _VIOL):
        _VIOL.append((vid, detail))


def finish():
    for vid, detail in sorted(_VIOL, key=lambda v: v[0].startswith('known:')):
        R.violation(vid, **detail)
    R.finish()


KNOWN = {
    'cimfloat': 'known:real32-real64-key-printed-as-repr',
    'expnodot': 'known:float-exponent-without-dot-rejected',
    'newline': 'known:string-key-newline-rejected',
    'hosthyphen': 'known:host-with-hyphen-rejected',
    'histhost': 'known:historical-host-without-namespace-rejected',
}

# ----------------------------------------------------------------------------------------------------------------
# path model: (host, namespace, classname, ((keyname, value), ...)); value = (kind, payload, cimtype-or-None)


def S(s):
    return ('str', s, None)


def C16(c):
    return ('char16', c, None)


def B(b):
    return ('bool', b, None)


def I(v, t=None):
    return ('int', v, t)


def F(f, t=None):
    return ('real', f, t)


def D(s):
    return ('dt', s, None)


def REF(p):
    return ('ref', p, None)


def build_val(v):
    k, x, t = v
    if k == 'char16':
        return Char16(x)
    if k in ('int', 'real') and t:
        return type_from_name(t)(x)
    if k == 'dt':
        return CIMDateTime(x)
    if k == 'ref':
        return build(x)
    return x


def build(m):
    host, ns, cls, keys = m
    return CIMInstanceName(cls, keybindings=dict((n, build_val(v)) for n, v in keys), host=host, namespace=ns)


def build_class(m):
    return CIMClassName(m[2], host=m[0], namespace=m[1])


def val_model(v):
    if isinstance(v, bool):
        return B(v)
    if isinstance(v, str):
        return S(str(v))
    if isinstance(v, CIMInstanceName):
        return REF(model_of(v))
    if isinstance(v, CIMDateTime):
        return D(str(v))
    if isinstance(v, float):
        return F(float(v))
    if isinstance(v, int):
        return I(int(v))
    return ('other', repr(v), None)


def model_of(q):
    return (q.host, q.namespace, q.classname, tuple((n, val_model(v)) for n, v in q.keybindings.items()))


def norm(m, drop_host=False):
    """The model after the documented widening of untyped URIs."""
    host, ns, cls, keys = m
    out = []
    for n, v in keys:
        k, x, _ = v
        if k == 'char16':
            v = S(x)
        elif k == 'ref':
            v = REF(norm(x, drop_host))
        elif k == 'real':
            v = F(float(x))
        else:
            v = (k, x, None)
        out.append((n, v))
    return (None if drop_host else host, ns, cls, tuple(out))


def subpaths(m):
    yield m
    for _, v in m[3]:
        if v[0] == 'ref':
            yield from subpaths(v[1])


def leaves(m):
    for pm in subpaths(m):
        for _, v in pm[3]:
            if v[0] != 'ref':
                yield v


def lname(x):
    return None if x is None else x.lower()


def same_float(a, b):
    return (math.isnan(a) and math.isnan(b)) or a == b


# ----------------------------------------------------------------------------------------------------------------
# reference reader


class Rej(Exception):
    pass


WORD = re.compile(r'\w+')
NSRE = re.compile(r'\w+(?:/\w+)*')
SCHEME = re.compile(r'[\w\-]+:(?=/)')
REALRE = re.compile(r'[+\-]?[0-9]*\.[0-9]+(?:[eE][+\-]?[0-9]+)?')
DTRE = re.compile(r'[0-9*]{14}\.[0-9*]{6}[+\-:][0-9*]{3}')
HEXD = set('0123456789abcdefABCDEF')


def lit_int(t):
    """DSP0004 integerValue -> int, else None."""
    sign, b = 1, t
    if b and b[0] in '+-':
        sign, b = (-1 if b[0] == '-' else 1), b[1:]
    if not b:
        return None
    if len(b) > 1 and b[-1] in 'bB' and set(b[:-1]) <= {'0', '1'}:
        return sign * int(b[:-1], 2)
    if len(b) > 2 and b[:2] in ('0x', '0X') and set(b[2:]) <= HEXD:
        return sign * int(b[2:], 16)
    if set(b) <= set('0123456789'):
        if b == '0' or b[0] != '0':
            return sign * int(b, 10)
        if set(b) <= set('01234567'):
            return sign * int(b, 8)
    return None


def lit_real(t):
    """DSP0004 realValue (plus the documented INF/-INF/NaN extension) -> float, else None."""
    if REALRE.fullmatch(t):
        return float(t)
    if t.upper() in ('INF', '-INF', 'NAN'):
        return float(t)
    return None


def scan_kb(kb):
    out, i, n = [], 0, len(kb)
    while True:
        m = WORD.match(kb, i)
        if not m or m.end() >= n or kb[m.end()] != '=':
            raise Rej('key name')
        name, i = m.group(), m.end() + 1
        if i >= n:
            raise Rej('empty value')
        c = kb[i]
        if c in '"\'':
            j, buf = i + 1, []
            while True:
                if j >= n:
                    raise Rej('unterminated quote')
                d = kb[j]
                if d == '\\':
                    if j + 1 >= n:
                        raise Rej('dangling backslash')
                    buf.append(kb[j + 1])
                    j += 2
                elif d == c:
                    break
                else:
                    buf.append(d)
                    j += 1
            out.append((name, 'dq' if c == '"' else 'sq', ''.join(buf)))
            i = j + 1
        else:
            j = i
            while j < n and kb[j] != ',':
                j += 1
            raw = kb[i:j]
            if not raw or any(ch in raw for ch in '"\'\\'):
                raise Rej('unquoted value')
            out.append((name, 'u', raw))
            i = j
        if i == n:
            return out
        if kb[i] != ',':
            raise Rej('separator')
        i += 1


def ref_split(text, inst):
    s = text
    m = SCHEME.match(s)
    if m:
        s = s[m.end():]
    host = None
    if s.startswith('//'):
        j = s.find('/', 2)
        if j < 0:
            raise Rej('authority')
        host = s[2:j] or None
        if host and any(c in host for c in '"\'\\,= \n'):
            raise Rej('authority chars')
        s = s[j + 1:]
    elif s.startswith('/'):
        s = s[1:]
    if inst:
        i = s.find('.')
        if i < 0:
            raise Rej('no keybindings')
        head, kb = s[:i], s[i + 1:]
    else:
        head, kb = s, None
    if ':' in head:
        ns, cls = head.split(':', 1)
        ns = ns or None
    else:
        ns, cls = None, head
    if not WORD.fullmatch(cls):
        raise Rej('classname')
    if ns is not None and not NSRE.fullmatch(ns):
        raise Rej('namespace')
    return host, ns, cls, (scan_kb(kb) if inst else None)


def norm_dt(s):
    return s[:-4] + '+000' if s.endswith('-000') else s


def interpret(form, raw):
    """Untyped reading of one scanned key value -> normalized value model."""
    if form == 'dq':
        try:
            return REF(ref_parse(raw))
        except Rej:
            pass
        if DTRE.fullmatch(raw):
            return D(norm_dt(raw))
        return S(raw)
    if form == 'sq':
        if len(raw) != 1:
            raise Rej('char16 length')
        return S(raw)
    if raw.lower() in ('true', 'false'):
        return B(raw.lower() == 'true')
    v = lit_int(raw)
    if v is not None:
        return I(v)
    v = lit_real(raw)
    if v is not None:
        return F(v)
    if DTRE.fullmatch(raw):
        return D(norm_dt(raw))
    raise Rej('unquoted value form')


def ref_parse(text):
    host, ns, cls, keys = ref_split(text, True)
    return (host, ns, cls, tuple((n, interpret(f, raw)) for n, f, raw in keys))


def typed_check(u, m, drop_host):
    """Read the printed URI u with the reference scanner and compare with the typed model m."""
    try:
        host, ns, cls, keys = ref_split(u, True)
    except Rej:
        return 'syntax'
    if lname(host) != lname(None if drop_host else m[0]):
        return 'host'
    if lname(ns) != lname(m[1]):
        return 'namespace'
    if lname(cls) != lname(m[2]):
        return 'classname'
    got = dict((n.lower(), (f, raw)) for n, f, raw in keys)
    if len(got) != len(keys) or set(got) != set(n.lower() for n, _ in m[3]) or len(keys) != len(m[3]):
        return 'keynames'
    for n, v in m[3]:
        f, raw = got[n.lower()]
        k, x, _ = v
        if k in ('str', 'char16', 'dt'):
            ok = f == 'dq' and raw == x
        elif k == 'bool':
            ok = f == 'u' and raw.lower() == ('true' if x else 'false')
        elif k == 'int':
            ok = f == 'u' and lit_int(raw) == x
        elif k == 'real':
            r = lit_real(raw) if f == 'u' else None
            ok = r is not None and same_float(r, float(x))
        else:
            if f != 'dq':
                return 'value-ref'
            a = typed_check(raw, x, drop_host)
            if a:
                return a if a.startswith('nested-') else 'nested-' + a
            continue
        if not ok:
            return 'value-' + k
    return None


def typed_check_class(u, m, drop_host):
    try:
        host, ns, cls, _ = ref_split(u, False)
    except Rej:
        return 'syntax'
    if lname(host) != lname(None if drop_host else m[0]):
        return 'host'
    if lname(ns) != lname(m[1]):
        return 'namespace'
    if lname(cls) != lname(m[2]):
        return 'classname'
    return None


# ----------------------------------------------------------------------------------------------------------------
# comparison of an untyped parse result with the widened model


def cmp_val(e, g):
    k = e[0]
    if k == 'str' and g[0] != 'str':
        # documented limit: strings that read as datetimes or URIs come back converted
        try:
            alt = interpret('dq', e[1])
        except Rej:
            alt = e
        if alt[0] == g[0] and alt[0] != 'str' and cmp_val(alt, g) is None:
            return None
        return 'value-string'
    if k != g[0]:
        return 'value-' + k + '-type'
    if k == 'real':
        return None if same_float(e[1], g[1]) else 'value-real'
    if k == 'ref':
        a = cmp_path(e[1], g[1])
        return None if a is None else (a if a.startswith('nested-') else 'nested-' + a)
    return None if e[1] == g[1] else 'value-' + ('string' if k == 'str' else k)


def cmp_path(e, g):
    if lname(e[0]) != lname(g[0]):
        return 'host'
    if lname(e[1]) != lname(g[1]):
        return 'namespace'
    if lname(e[2]) != lname(g[2]):
        return 'classname'
    ek = dict((n.lower(), v) for n, v in e[3])
    gk = dict((n.lower(), v) for n, v in g[3])
    if len(gk) != len(g[3]) or set(ek) != set(gk):
        return 'keynames'
    for n, v in ek.items():
        a = cmp_val(v, gk[n])
        if a:
            return a
    return None


def ambiguous(m):
    """Does the model contain a string that the reference reader takes for a datetime/URI, or a NaN?"""
    for v in leaves(m):
        if v[0] in ('str', 'char16'):
            try:
                if interpret('dq', v[1])[0] != 'str':
                    return True
            except Rej:
                pass
        elif v[0] == 'real' and math.isnan(v[1]):
            return True
    return False


# ----------------------------------------------------------------------------------------------------------------
# known-defect triggers and their repair (used to attribute a rejection narrowly)

HOSTED = ('standard', 'historical', 'canonical', 'str')


def triggers(m, fmt, inst=True):
    t = []
    for pm in (subpaths(m) if inst else [m]):
        if pm[0] is not None and fmt in HOSTED:
            if '-' in pm[0]:
                t.append('hosthyphen')
            if pm[1] is None and fmt in ('historical', 'str'):
                t.append('histhost')
    if inst:
        for v in leaves(m):
            if v[0] in ('str', 'char16') and '\n' in v[1]:
                t.append('newline')
            elif v[0] == 'real' and v[2]:
                t.append('cimfloat')
            elif v[0] == 'real' and math.isfinite(v[1]) and '.' not in repr(v[1]):
                t.append('expnodot')
    order = ['cimfloat', 'expnodot', 'newline', 'hosthyphen', 'histhost']
    return [x for x in order if x in t]


def repair(m, trig, inst=True):
    host, ns, cls, keys = m
    if host is not None:
        if 'hosthyphen' in trig:
            host = host.replace('-', 'x')
        if 'histhost' in trig and ns is None:
            ns = 'root'
    out = []
    for n, v in (keys or ()):
        k, x, t = v
        if k == 'ref':
            v = REF(repair(x, trig))
        elif k in ('str', 'char16') and 'newline' in trig:
            v = (k, x.replace('\n', ' '), t)
        elif k == 'real' and ((t and 'cimfloat' in trig) or
                              ('expnodot' in trig and math.isfinite(x) and '.' not in repr(x))):
            v = F(1.5)
        out.append((n, v))
    return (host, ns, cls, tuple(out) if inst else keys)


# ----------------------------------------------------------------------------------------------------------------
# the per-path check

ROUTES = ('standard', 'historical', 'canonical', 'cimobject', 'str', 'header')


def emit(p, route):
    if route == 'str':
        return str(p)
    if route == 'header':
        return get_cimobject_header(p)
    return p.to_wbem_uri(format=route)


def stage_read(m, route, inst):
    """Print with pywbem, read with the reference reader. -> (uri, aspect-or-None)"""
    p = build(m) if inst else build_class(m)
    u = emit(p, route)
    drop = route in ('cimobject', 'header')
    return p, u, (typed_check(u, m, drop) if inst else typed_check_class(u, m, drop))


def stage_parse(u, inst):
    """-> (obj, None) | (None, 'ValueError') | (None, other exception name)"""
    try:
        q = (CIMInstanceName if inst else CIMClassName).from_wbem_uri(u)
    except ValueError:
        return None, 'ValueError'
    except Exception as e:  # noqa
        return None, type(e).__name__
    return q, None


def roundtrip_ok(m, route):
    q, err = stage_parse(stage_read(m, route, True)[1], True)
    return err is None and cmp_path(norm(m, route in ('cimobject', 'header')), model_of(q)) is None


def attribute(m, route, inst, relevant, test):
    trig = [t for t in triggers(m, route, inst) if t in relevant]
    if not trig:
        return None
    try:
        if test(repair(m, set(trig), inst)):
            return KNOWN[trig[0]]
    except Exception:  # noqa
        pass
    return None


def check_path(m, inst=True, routes=ROUTES, tag=''):
    seen = {}
    hosts = any(pm[0] is not None for pm in (subpaths(m) if inst else [m]))
    amb = ambiguous(m) if inst else False
    for route in routes:
        R.case((route, inst, m))
        desc = dict(path=repr(m), route=route, kind='instance' if inst else 'class')
        drop = route in ('cimobject', 'header')
        try:
            p, u, aspect = stage_read(m, route, inst)
        except Exception as e:  # noqa
            violation(tag + 'print-raises-' + type(e).__name__, error=repr(e)[:200], **desc)
            continue
        if not isinstance(u, str):
            violation(tag + 'print-returns-non-string', observed=repr(u)[:100], **desc)
            continue
        if (u, drop) in seen:   # str() / header coincide with historical / cimobject: same text, same verdict
            continue
        seen[(u, drop)] = route
        desc['uri'] = u
        if aspect:
            kid = attribute(m, route, inst, ('cimfloat', 'expnodot'),
                            lambda m2: stage_read(m2, route, inst)[2] is None)
            violation(kid or (tag + 'printed-uri-' + aspect + '-wrong'), **desc)
        q, err = stage_parse(u, inst)
        if err == 'ValueError':
            kid = attribute(m, route, inst, tuple(KNOWN),
                            lambda m2: stage_parse(stage_read(m2, route, inst)[1], inst)[1] is None)
            violation(kid or (tag + 'printed-uri-rejected-by-parser'), **desc)
            continue
        if err:
            violation(tag + 'parser-raises-' + err, **desc)
            continue
        if not isinstance(q, CIMInstanceName if inst else CIMClassName):
            violation(tag + 'parser-returns-wrong-class', observed=type(q).__name__, **desc)
            continue
        exp = norm(m, drop) if inst else ((None if drop else m[0]), m[1], m[2], ())
        got = model_of(q) if inst else (q.host, q.namespace, q.classname, ())
        a = cmp_path(exp, got)
        if a:
            kid = None
            if a.endswith('value-ref-type'):
                # a nested reference that the parser rejects silently comes back as a string
                kid = attribute(m, route, inst, tuple(KNOWN), lambda m2: roundtrip_ok(m2, route))
            violation(kid or (tag + 'roundtrip-' + a + '-differs'), observed=repr(got)[:300], **desc)
            continue
        if not amb and not (drop and hosts):
            try:
                eq = (q == p) and (p == q)
            except Exception as e:  # noqa
                violation(tag + 'roundtrip-eq-raises-' + type(e).__name__, **desc)
                continue
            if not eq:
                violation(tag + 'roundtrip-eq-false', observed=repr(q)[:300], **desc)


# ----------------------------------------------------------------------------------------------------------------
# canonical form: case / order variants


def variant(m, mode, inst=True):
    f = (str.swapcase, str.upper, str.lower)[mode]
    host, ns, cls, keys = m
    out = []
    for n, v in (keys or ()):
        if v[0] == 'ref':
            v = REF(variant(v[1], mode))
        out.append((f(n), v))
    out = out[::-1] if mode != 2 else out[1:] + out[:1]
    return (f(host) if host else host, f(ns) if ns else ns, f(cls), tuple(out) if inst else keys)


def names_of(m):
    for pm in subpaths(m):
        yield pm[0] or ''
        yield pm[1] or ''
        yield pm[2]
        for n, _ in pm[3]:
            yield n


def check_canonical(m, inst=True):
    mk = build if inst else build_class
    try:
        c0 = mk(m).to_wbem_uri(format='canonical')
    except Exception:  # noqa  (reported by check_path)
        return
    for mode in (0, 1, 2):
        f = (str.swapcase, str.upper, str.lower)[mode]
        if any(f(x).lower() != x.lower() for x in (names_of(m) if inst else (m[0] or '', m[1] or '', m[2]))):
            continue    # a name without a clean case mapping
        v = variant(m, mode, inst)
        R.case(('canon', mode, inst, m))
        try:
            c1 = mk(v).to_wbem_uri(format='canonical')
        except Exception as e:  # noqa
            violation('print-raises-' + type(e).__name__, path=repr(v), route='canonical')
            continue
        if c1 != c0:
            violation('canonical-differs-for-case-or-order-variant', path=repr(m), variant=repr(v),
                      canonical=c0, canonical_variant=c1, kind='instance' if inst else 'class')


# ----------------------------------------------------------------------------------------------------------------
# reference printer (alternative lexical forms) -> pywbem parser


def esc(s, st):
    out = []
    for c in s:
        if c in '\\"' or (st.get('escall') and c != '\n'):
            out.append('\\')
        out.append(c)
    return ''.join(out)


def ref_print_val(v, st):
    k, x, _ = v
    if k == 'str':
        return '"' + esc(x, st) + '"'
    if k == 'char16':
        if st.get('sq'):
            return "'" + ('\\' + x if x in "\\'" or st.get('escall') and x != '\n' else x) + "'"
        return '"' + esc(x, st) + '"'
    if k == 'bool':
        return {'upper': str(x).upper(), 'lower': str(x).lower(), 'title': str(x)}[st.get('bool', 'upper')]
    if k == 'int':
        f, sg, a = st.get('int', 'dec'), ('-' if x < 0 else ''), abs(x)
        if f == 'plus' and x >= 0:
            return '+' + str(x)
        if f == 'hex':
            return sg + '0x' + format(a, 'X')
        if f == 'hexl':
            return sg + '0X' + format(a, 'x')
        if f == 'bin':
            return sg + format(a, 'b') + ('b' if a % 2 else 'B')
        if f == 'oct' and a and '0' not in format(a, 'o'):
            return sg + '0' + format(a, 'o')
        return str(x)
    if k == 'real':
        x = float(x)
        if math.isnan(x):
            return st.get('nan', 'NaN')
        if math.isinf(x):
            s = 'INF' if st.get('real') != 'lower' else 'inf'
            return ('-' if x < 0 else '') + s
        f = st.get('real', 'repr')
        r = repr(x)
        if '.' not in r or f == 'E':
            r = format(x, '.17E')
        if f == 'lower':
            r = format(x, '.17e')
        if f == 'plus' and x >= 0 and not r.startswith('-'):
            r = '+' + r
        if f == 'nolead':
            if r.startswith('0.'):
                r = r[1:]
            elif r.startswith('-0.'):
                r = '-' + r[2:]
        return r
    if k == 'dt':
        return x if st.get('dtunq') else '"' + x + '"'
    return '"' + esc(ref_print(x, st, top=False), st) + '"'


def ref_print(m, st, top=True, inst=True):
    host, ns, cls, keys = m
    out = []
    scheme = st.get('scheme') if top else None
    if scheme:
        out.append(scheme + ':')
    local = host is None and not scheme
    if host is not None:
        out.append('//' + host)
    if not (local and st.get('noslash')):
        out.append('/')
    if ns is not None:
        out.append(ns)
    if not (local and st.get('noslash') and st.get('nocolon') and ns is None):
        out.append(':')
    out.append(cls)
    if inst:
        out.append('.' + ','.join(n + '=' + ref_print_val(v, st) for n, v in keys))
    return ''.join(out)


STYLES = [
    ('plain', {}),
    ('https', {'scheme': 'https'}),
    ('http-upper', {'scheme': 'HTTP', 'bool': 'lower'}),
    ('cimxml-wbem', {'scheme': 'cimxml-wbem', 'int': 'plus', 'real': 'plus'}),
    ('cimxml-wbems', {'scheme': 'cimxml-wbems', 'bool': 'title'}),
    ('unknown-scheme', {'scheme': 'x-y', 'real': 'lower'}),
    ('noslash', {'noslash': True, 'int': 'hex', 'real': 'E'}),
    ('bare', {'noslash': True, 'nocolon': True, 'int': 'bin', 'real': 'nolead', 'nan': 'nan'}),
    ('hexl-sq', {'int': 'hexl', 'sq': True, 'nan': 'NAN'}),
    ('oct-escall', {'int': 'oct', 'escall': True, 'sq': True}),
    ('dtunq', {'dtunq': True, 'real': 'lower'}),
]


def alt_ok(m, st):
    q, err = stage_parse(ref_print(m, st), True)
    return err is None and cmp_path(norm(m), model_of(q)) is None


def check_alt_forms(m, inst=True):
    exp = norm(m) if inst else (m[0], m[1], m[2], ())
    for sname, st in STYLES:
        R.case(('alt', sname, inst, m))
        text = ref_print(m, st, inst=inst)
        desc = dict(path=repr(m), style=sname, text=text, kind='instance' if inst else 'class')
        q, err = stage_parse(text, inst)
        if err == 'ValueError':
            kid = attribute(m, 'standard', inst, ('newline', 'hosthyphen'),
                            lambda m2: stage_parse(ref_print(m2, st, inst=inst), inst)[1] is None)
            violation(kid or ('parse-rejects-valid-uri-' + sname), **desc)
            continue
        if err:
            violation('parser-raises-' + err, **desc)
            continue
        got = model_of(q) if inst else (q.host, q.namespace, q.classname, ())
        a = cmp_path(exp, got)
        if a:
            kid = None
            if a.endswith('value-ref-type'):
                kid = attribute(m, 'standard', inst, ('newline', 'hosthyphen'), lambda m2: alt_ok(m2, st))
            violation(kid or ('parse-' + a + '-differs'), observed=repr(got)[:300], **desc)


# ----------------------------------------------------------------------------------------------------------------
# parser totality on arbitrary text

ACCEPTED = {}


def fuzz(text, classes=(True, False)):
    for inst in classes:
        R.case(('fz', inst, text))
        try:
            q = (CIMInstanceName if inst else CIMClassName).from_wbem_uri(text)
        except ValueError:
            continue
        except Exception as e:  # noqa
            violation('from-wbem-uri-raises-' + type(e).__name__, text=text, error=repr(e)[:200],
                      kind='instance' if inst else 'class')
            continue
        if not isinstance(q, CIMInstanceName if inst else CIMClassName):
            violation('parser-returns-wrong-class', text=text, observed=type(q).__name__)
            continue
        try:
            mq = model_of(q) if inst else (q.host, q.namespace, q.classname, None)
            if len(ACCEPTED) < 60000:
                ACCEPTED.setdefault((inst, mq), text)
        except Exception as e:  # noqa
            violation('parsed-object-unreadable-' + type(e).__name__, text=text)


def all_strings(alpha, maxlen, minlen=0):
    for n in range(minlen, maxlen + 1):
        for t in itertools.product(alpha, repeat=n):
            yield ''.join(t)


def mutate(s, rnd, pool):
    n = rnd.choice((1, 1, 2, 3))
    s = list(s)
    for _ in range(n):
        op = rnd.randrange(4)
        i = rnd.randrange(len(s) + 1)
        if op == 0 and s:
            del s[min(i, len(s) - 1)]
        elif op == 1:
            s.insert(i, rnd.choice(pool))
        elif op == 2 and s:
            s[min(i, len(s) - 1)] = rnd.choice(pool)
        elif s:
            j = rnd.randrange(len(s) + 1)
            a, b = min(i, j), max(i, j)
            s[a:b] = s[a:b] * 2 if rnd.random() < 0.5 else []
    return ''.join(s)


# ----------------------------------------------------------------------------------------------------------------
# scope

HOSTS_OK = [None, 'acme.com', 'ACME.com:5989', '10.1.2.3', '10.1.2.3:5988', '[::1]', '[2001:db8::A1]:5989',
            'user:Pw@host.dom:5989', 'localhost']
HOSTS = HOSTS_OK + ['my-host.example.com']                      # last: known (hyphen)
NAMESPACES = [None, 'root', 'root/cimv2', 'Root/CIMv2/Test', 'interop', 'http', 'a/b/c/d', 'https']
CLASSNAMES = ['CIM_Foo', 'C', 'x1', 'Ünï_K']
HN_SMALL = [(None, None), (None, 'root/cimv2'), ('ACME.com:5989', 'Root/CIMv2/Test'), ('[::1]', 'interop')]

STR_SPECIAL = [
    '', 'a', 'Acme.1', ' ', 'a b', '"', '\\', '\\"', '"\\', '\\\\', '""', 'a"b\\c', '\\a', 'a\\', '\\n',
    ',', 'a,b=c', ',k=1', ',k="x"', '=', 'k=1', "'", "it's", "'a'", '\r', '\t', 'a\rb',
    'true', 'TRUE', '5', '-1', '0x10', '1.5', 'INF', 'NaN', '1e5', 'é', 'Éß', ' ', '中文',
    '\U0001f600', '/', ':', '.', 'a.b', '//', '/:', 'C.', 'C.k', 'C.k=', 'x.y=z', 'x.y="z', 'http://acme.com/',
    'a' * 300, '\\' * 7, '"' * 7, '\\"' * 5,
    # documented limits: read back as reference / datetime
    'C.k=1', '/:C.k="x"', '//h/ns:C.k=1', 'root/cimv2:CIM_Foo.Name="a",ID=5', 'C.k=TRUE',
    '20140924193040.654321+120', '00000183132542.234567:000', '201409241930**.******+120',
    '20141324193040.654321+120',    # looks like a datetime but month 13
    # known: newline
    '\n', 'a\nb', 'a\n', '\\\n', '"\n"',
]
ESC_ALPHA = ['a', '"', '\\', ',', '=', "'", '\n', '.', ':', '/']
CHAR16S = ['a', 'Z', '0', '"', '\\', "'", ',', '=', ' ', 'é', '￿', '\t', '\n']
INT_TYPES = ['uint8', 'sint8', 'uint16', 'sint16', 'uint32', 'sint32', 'uint64', 'sint64']
INTS = [0, 1, -1, 7, 8, 9, 10, 15, 16, 255, 256, -128, 65535, 2 ** 31, 2 ** 32 - 1, 2 ** 63 - 1, -2 ** 63,
        2 ** 64 - 1, 2 ** 64, 10 ** 30, -10 ** 30]
REALS_OK = [0.0, -0.0, 1.0, 1.5, -1.5, 0.1, 0.5, -0.25, 1.5e-5, 1.5e16, 1e15, 123456789.12345679,
            1.7976931348623157e308, 2.2250738585072014e-308, 4.9406564584124654e-324 * 3, 1.2345e100, 3.4028235e38,
            1.1754943508222875e-38, 1 / 3.0, 1e-4, float('inf'), float('-inf'), float('nan')]
REALS_EXP = [1e22, 1e16, 1e-5, 1e-7, 1e100, 5e-324, -1e22, 2e+300]     # repr has no '.': known
DATETIMES = ['20140924193040.654321+120', '20140924193040.654321+000', '00010101000000.000000+000',
             '99991231235959.999999+720', '20140924193040.654321-720', '00000183132542.234567:000',
             '99999999235959.999999:000', '00000000000000.000000:000', '201409241930**.******+120',
             '2014**********.******+000', '000001831325**.******:000', '**************.******:000']


def leaf_values():
    out = [S(s) for s in STR_SPECIAL]
    out += [C16(c) for c in CHAR16S]
    out += [B(True), B(False)]
    out += [I(v) for v in INTS]
    for t in INT_TYPES:
        ty = type_from_name(t)
        out += [I(ty.minvalue, t), I(ty.maxvalue, t)] + ([I(0, t)] if ty.minvalue else [])
    out += [F(x) for x in REALS_OK + REALS_EXP]
    out += [F(1.5, 'real32'), F(1.5, 'real64'), F(float('inf'), 'real32'), F(0.1, 'real64'), F(1e22, 'real64')]
    out += [D(d) for d in DATETIMES]
    return out


SMALL_VALUES = [S('a'), S('Acme.1'), S('a"b\\c'), S('\\"'), S(',k="x"'), S("it's"), S(''), C16('"'), B(True), B(False),
                I(0), I(-1), I(255, 'uint8'), I(2 ** 64 - 1, 'uint64'), F(1.5), F(-0.25), F(1.5e-5), F(float('inf')),
                D('20140924193040.654321+120'), D('00000183132542.234567:000')]
TRIGGER_VALUES = [S('a\nb'), F(1e22), F(1.5, 'real32'), C16('\n')]
KEYSETS = [('B', 'a'), ('a', 'B', 'C'), ('Name', 'CreationClassName', 'SystemName'), ('k2', 'K10', 'k1'),
           ('_z', 'Z', 'ä'), ('InstanceID', 'instanceid2')]


def P(host, ns, cls, keys):
    return (host, ns, cls, tuple(keys))


def rand_path(rnd, depth, leafpool):
    host = rnd.choice(HOSTS_OK) if rnd.random() < 0.6 else None
    ns = rnd.choice(NAMESPACES)
    if host is not None and ns is None and rnd.random() < 0.8:
        ns = 'root/cimv2'
    if rnd.random() < 0.02:
        host = 'my-host.example.com'
    names = list(rnd.choice(KEYSETS))
    rnd.shuffle(names)
    names = names[:rnd.choice((1, 1, 2, 2, 3))]
    keys = []
    for n in names:
        if depth > 0 and rnd.random() < 0.5:
            keys.append((n, REF(rand_path(rnd, depth - 1, leafpool))))
        elif rnd.random() < 0.03:
            keys.append((n, rnd.choice(TRIGGER_VALUES)))
        else:
            keys.append((n, rnd.choice(leafpool)))
    return P(host, ns, rnd.choice(CLASSNAMES), keys)


def main():
    leaf = leaf_values()
    pool = []       # models also used for alternative forms / mutation seeds

    # E1: single-key paths, every leaf value x 4 host/namespace combinations
    for v in leaf:
        for i, (h, ns) in enumerate(HN_SMALL):
            m = P(h, ns, 'CIM_Foo', [('InstanceID', v)])
            check_path(m)
            if i == 0:
                check_canonical(m)
                pool.append(m)
    # E1b: exhaustive strings over the escaping alphabet
    for n, s in enumerate(all_strings(ESC_ALPHA, 3 if QUICK else 4)):
        h, ns = HN_SMALL[n % 2]
        check_path(P(h, ns, 'C', [('k', S(s))]), routes=('standard', 'canonical', 'str'))
    for c in ESC_ALPHA:
        check_path(P(None, None, 'C', [('k', C16(c))]), routes=('standard', 'str'))

    # E2: host x namespace x classname grid, class paths and instance paths
    for h in HOSTS:
        for ns in NAMESPACES:
            for cls in CLASSNAMES:
                mc = (h, ns, cls, None)
                check_path(mc, inst=False)
                check_canonical(mc, inst=False)
                check_alt_forms(mc, inst=False)
                mi = P(h, ns, cls, [('Name', S('Acme.1')), ('id', I(5))])
                check_path(mi)
                check_canonical(mi)
                if cls == 'CIM_Foo':
                    pool.append(mi)

    # E3: multi-key paths with case-mixed names
    for names in KEYSETS:
        vals = SMALL_VALUES if not QUICK else SMALL_VALUES[::2] + [SMALL_VALUES[1]]
        combos = list(itertools.product(vals, repeat=len(names)))
        if len(names) == 3:
            combos = RND.sample(combos, 300 if QUICK else 3000)
        for j, combo in enumerate(combos):
            h, ns = HN_SMALL[j % 4]
            m = P(h, ns, 'CIM_Foo', zip(names, combo))
            check_path(m, routes=('standard', 'historical', 'canonical', 'cimobject'))
            check_canonical(m)
            if j % 29 == 0:
                pool.append(m)

    # E4: nested references to depth 3
    inner = [P(h, ns, 'CIM_Bar', [('Key', v)]) for v in SMALL_VALUES + TRIGGER_VALUES
             for h, ns in ((None, None), (None, 'root/cimv2'), ('ACME.com:5989', 'Root/Interop'))]
    inner += [P('Host2', 'root', 'D', [('B', S('x"y')), ('a', I(3)), ('C', B(True))]),
              P('my-host', 'root', 'D', [('k', I(1))]), P('host3', None, 'D', [('k', I(1))])]
    d1 = [P(h, ns, 'CIM_Assoc', [('Ref', REF(i))]) for i in inner
          for h, ns in ((None, None), ('acme.com', 'root/cimv2'))]
    d1 += [P(None, 'root', 'A', [('Dependent', REF(a)), ('antecedent', REF(b)), ('Tag', S('t,"'))])
           for a, b in zip(inner[::5], inner[3::5])]
    d2 = [P(h, 'interop', 'A2', [('R', REF(x)), ('n', I(i))]) for i, x in enumerate(d1[::3])
          for h in (None, '[::1]:5989')]
    d3 = [P(None, 'root/x', 'A3', [('Outer', REF(x))]) for x in d2[::2]]
    d3 += [P('acme.com', 'root', 'A3', [('b', REF(x)), ('A', REF(y))]) for x, y in zip(d2[::7], d1[::11])]
    for m in inner + d1 + d2 + d3:
        check_path(m)
        check_canonical(m)
    pool += inner[::4] + d1[::9] + d2[::9] + d3[::9]

    # E5: seeded random composite paths
    okleaf = [v for v in leaf if not triggers(P(None, None, 'C', [('k', v)]), 'standard')]
    for _ in range(4000 if QUICK else 100000):
        m = rand_path(RND, RND.choice((0, 1, 1, 2, 3)), okleaf)
        check_path(m, routes=('standard', 'historical', 'canonical', 'cimobject', 'header'))
        check_canonical(m)
        if len(pool) < 600 and RND.random() < 0.1:
            pool.append(m)

    # E6: reference-printed alternative lexical forms
    for m in pool:
        check_alt_forms(m)
    for v in INTS + [17, -17, 0o777, 4095]:
        check_alt_forms(P(None, 'root', 'C', [('k', I(v))]))

    # header passes strings through unchanged
    for s in ('root/cimv2', '', 'root/cimv2:CIM_Foo', '/:C.k=1'):
        R.case(('hdr-str', s))
        if get_cimobject_header(s) != s:
            violation('header-string-changed', input=s, observed=get_cimobject_header(s))

    # E7: parser totality
    a1 = ['/', ':', '.', '=', ',', '"', "'", '\\', 'a', '1', '-', '[', '@', '\n']
    for t in all_strings(a1, 4 if QUICK else 5):
        fuzz(t)
    a2 = ['0', '1', '8', '.', '+', '-', 'e', 'x', 'b', '"', "'", '\\', 'I', 'N', 'F', 'A', ',', 'k', '=', 't']
    for t in all_strings(a2 if QUICK else a2[:16], 4 if QUICK else 5, 1):
        fuzz('C.k=' + t, (True,))
    for t in all_strings(a2[16:] + ['r', 'u', 'E', 'T'], 4, 1) if not QUICK else ():
        fuzz('C.k=' + t, (True,))
    a3 = ['a', '\\', '"', '.', '=', ':', '/', '1', '*', '+', ',']
    for t in all_strings(a3, 4 if QUICK else 5):
        fuzz('C.k="' + t + '"', (True,))
        if len(t) <= 3:
            fuzz("/:C.k='" + t + "'", (True,))
    for w in ('true', 'TRUE', 'True', 'false', 'tRuE', 'INF', '-INF', '+INF', 'NaN', 'nan', 'inf', 'infinity', '1.', '.1',
              '1.e5', '.e5', '1.5e', '1.5e+', '0x', '0b', 'b', '-', '+', '00', '010', '08', '0x1G', '1_0', '1e400.0',
              '9' * 5000, '1.' + '9' * 5000, '.5e' + '9' * 30, '١', '٠.٥', '²', '1\n', '1.5\n',
              ' 1', '1 ', 'k=1', '"a"b', '"a""b"', "'a'b", '"\\', "'\\", '"a\\"', 'C.k=1'):
        for pre in ('C.k=', '/root:C.j="x",k=', '//h/ns:C.k=1,K='):
            fuzz(pre + w, (True,))
    alts = '0123459*+-:.a'
    for base in DATETIMES[:1] + DATETIMES[5:6] + DATETIMES[8:9]:
        pos = range(len(base))
        pairs = [(i, j) for i in pos for j in pos if i <= j]
        if QUICK:
            pairs = [(i, i) for i in pos] + RND.sample(pairs, 40)
        for i, j in pairs:
            for a in alts:
                for b in (alts if i != j else a):
                    s = list(base)
                    s[i], s[j] = a, b
                    s = ''.join(s)
                    fuzz('C.k=' + s, (True,))
                    fuzz('C.k="' + s + '"', (True,))
    seeds = []
    for m in pool:
        if len(m) == 4 and m[3] is not None:
            try:
                seeds.append(build(m).to_wbem_uri(RND.choice(('standard', 'historical', 'canonical'))))
            except Exception:  # noqa
                pass
    seeds += ['//acme.com:5989/root/cimv2:CIM_Foo', 'https://u:p@[::1]:5989/root:C', 'root/cimv2:C', '/:C']
    chars = a1 + list('0Ee+xbB*TRUF \t') + ['é', '\r']
    for _ in range(40000 if QUICK else 600000):
        fuzz(mutate(RND.choice(seeds), RND, chars))

    # whatever the parser accepted must round-trip again (idempotence)
    for (inst, mq), text in list(ACCEPTED.items()):
        try:
            if inst and any(v[0] == 'other' for v in leaves(mq)):
                violation('parsed-key-value-of-unknown-type', text=text, observed=repr(mq)[:200])
                continue
            if inst and not mq[3]:
                violation('parsed-instance-path-without-keys', text=text)
                continue
            check_path(mq, inst=inst, routes=('standard', 'canonical'), tag='reparse-')
        except Exception as e:  # noqa
            violation('reparse-check-failed-' + type(e).__name__, text=text, error=repr(e)[:200])
    finish()


main()
