"""Bounded stand-in for C20: ValueMapping against an independent reference of the DSP0004 semantics."""
import itertools
import random
from bounded.common import Run
from pywbem import ValueMapping, CIMProperty, CIMMethod, CIMQualifier, ModelError
from pywbem._cim_types import type_from_name

R = Run('ValueMap arrays of length <= 3 (quick: <= 2 exhaustive + sampled 3) over a 10-entry alphabet x Values '
        'size -1/0/+1 x values_default given/not x uint8,sint8 (all 256 values) + wider types at boundaries')

ALPHA = ['1', '0x02', '3..5', '..', '7..', '..9', '017', '-101b', 'x', '4..4']
TYPES_FULL = ['uint8', 'sint8']


def parse_int(s):
    import re
    if re.fullmatch(r'[+-]?[01]+[bB]', s):
        return int(s[:-1], 2)
    if re.fullmatch(r'[+-]?0[0-7]+', s):
        return int(s, 8)
    if re.fullmatch(r'[+-]?([1-9][0-9]*|0)', s):
        return int(s, 10)
    if re.fullmatch(r'[+-]?0[xX][0-9a-fA-F]+', s):
        return int(s, 16)
    raise ModelError('bad int')


def parse_entry(e):
    """-> ('u',) | ('s', v) | ('r', lo|None, hi|None); ModelError if malformed."""
    if e == '..':
        return ('u',)
    if '..' in e:
        k = e.rfind('..')
        lo, hi = e[:k], e[k + 2:]
        return ('r', None if lo == '' else parse_int(lo), None if hi == '' else parse_int(hi))
    return ('s', parse_int(e))


def reference(vmap, vals, default, tname):
    """Reference table: list of (binary, values) in qualifier order, or the exception class."""
    t = type_from_name(tname)
    vals = list(vals)
    if len(vmap) > len(vals):
        if default is None:
            return ModelError
        vals += [default] * (len(vmap) - len(vals))
    if len(vmap) < len(vals):
        if default is None:
            return ModelError
        vals = vals[:len(vmap)]
    out = []
    try:
        ents = []
        for e in vmap:
            try:
                ents.append(parse_entry(e))
            except ModelError:
                ents.append(ModelError)
        for i, p in enumerate(ents):
            if p is ModelError:
                return ModelError
            if p[0] == 'u':
                out.append((None, vals[i]))
            elif p[0] == 's':
                out.append((p[1], vals[i]))
            else:
                lo, hi = p[1], p[2]
                if lo is None:
                    if i == 0:
                        lo = t.minvalue
                    else:
                        q = ents[i - 1]
                        if q is ModelError or q[0] == 'u' or (q[0] == 'r' and q[2] is None):
                            return ModelError
                        lo = (q[1] if q[0] == 's' else q[2]) + 1
                if hi is None:
                    if i == len(ents) - 1:
                        hi = t.maxvalue
                    else:
                        q = ents[i + 1]
                        if q is ModelError or q[0] == 'u' or (q[0] == 'r' and q[1] is None):
                            return ModelError
                        hi = q[1] - 1
                out.append((lo if lo == hi else (lo, hi), vals[i]))
    except ModelError:
        return ModelError
    return out


def claims(table, v):
    singles = [s for b, s in table if isinstance(b, int) and b == v]
    if singles:
        return set(singles)
    for b, s in table:
        if isinstance(b, tuple) and b[0] <= v <= b[1]:
            return {s}
    un = {s for b, s in table if b is None}
    return un or None


def build(kind, tname, vmap, vals):
    quals = [CIMQualifier('Values', list(vals), type='string')]
    if vmap is not None:
        quals.append(CIMQualifier('ValueMap', list(vmap), type='string'))
    if kind == 'method':
        return CIMMethod('M', return_type=tname, qualifiers=quals)
    return CIMProperty('P', None, type=tname, qualifiers=quals)


def check(kind, tname, vmap, vals, default, values):
    R.case((kind, tname, tuple(vmap) if vmap is not None else None, len(vals), default))
    eff_vmap = [str(i) for i in range(len(vals))] if vmap is None else vmap
    ref = reference(eff_vmap, vals, default, tname)
    desc = dict(kind=kind, type=tname, ValueMap=vmap, Values=list(vals), values_default=default)
    try:
        vm = ValueMapping._create_for_element(build(kind, tname, vmap, vals), None, 'ns', 'C',
                                              propname='P' if kind != 'method' else None,
                                              methodname='M' if kind == 'method' else None, values_default=default)
    except (ModelError, ValueError) as e:
        if ref is not ModelError:
            R.violation('create-rejects-valid', observed=type(e).__name__ + ': ' + str(e)[:100], expected=repr(ref)[:200], **desc)
        return
    except Exception as e:
        R.violation('create-raises-' + type(e).__name__, observed=repr(e)[:200], **desc)
        return
    if ref is ModelError:
        R.violation('create-accepts-malformed', **desc)
        return
    # items(): qualifier order (Values strings are distinct in this scope)
    try:
        got = list(vm.items())
    except Exception as e:
        R.violation('items-raises-' + type(e).__name__, **desc)
        return
    if got != ref:
        R.violation('items-differ', observed=repr(got)[:300], expected=repr(ref)[:300], **desc)
        return
    for b, s in ref:
        try:
            if vm.tobinary(s) != b:
                R.violation('tobinary-differs', values=s, observed=repr(vm.tobinary(s)), expected=repr(b), **desc)
        except Exception as e:
            R.violation('tobinary-raises-' + type(e).__name__, values=s, **desc)
    for v in values:
        exp = claims(ref, v)
        try:
            r = vm.tovalues(v)
            if exp is None or r not in exp:
                R.violation('tovalues-differs', value=v, observed=r, expected=sorted(exp) if exp else 'ValueError', **desc)
                return
        except ValueError:
            if exp is not None:
                R.violation('tovalues-rejects-claimed', value=v, expected=sorted(exp), **desc)
                return
        except Exception as e:
            R.violation('tovalues-raises-' + type(e).__name__, value=v, **desc)
            return


def main():
    rnd = random.Random(R.seed)
    maxlen = 3
    combos = []
    for n in range(0, maxlen + 1):
        for vmap in itertools.product(ALPHA, repeat=n):
            combos.append(list(vmap))
    if R.tier == 'quick':
        full = [c for c in combos if len(c) <= 2]
        rest = [c for c in combos if len(c) == 3]
        combos = full + rnd.sample(rest, 250)
    for vmap in combos:
        for dv in (-1, 0, 1):
            nv = len(vmap) + dv
            if nv < 0:
                continue
            vals = [f'v{i}' for i in range(nv)]
            for default in (None, 'dflt'):
                if dv == 0 and default is not None and R.tier == 'quick' and len(vmap) == 3:
                    continue
                for tname in TYPES_FULL:
                    t = type_from_name(tname)
                    values = range(t.minvalue, t.maxvalue + 1) if (dv == 0 or default) else ()
                    check('property', tname, vmap, vals, default, values)
    # no ValueMap: default consecutive numbers; methods; wider types at boundaries
    for nv in range(0, 4):
        vals = [f'v{i}' for i in range(nv)]
        for kind in ('property', 'method'):
            check(kind, 'uint16', None, vals, None, range(-1, 6))
    for tname in ('uint16', 'sint16', 'uint32', 'sint32', 'uint64', 'sint64'):
        t = type_from_name(tname)
        pts = [t.minvalue, t.minvalue + 1, -1, 0, 1, 2, 3, 5, 6, 7, 9, 10, t.maxvalue - 1, t.maxvalue]
        pts = [p for p in pts if t.minvalue <= p <= t.maxvalue]
        for vmap in (['..3', '5', '7..'], ['1', '3..', '10..20', '30', '..40'], ['..'], ['2..', '..']):
            check('method', tname, vmap, [f'v{i}' for i in range(len(vmap))], None, pts)
    # non-integer types are rejected with ModelError; missing Values with ValueError
    for tname in ('string', 'boolean', 'real32', 'datetime'):
        R.case(('nonint', tname))
        try:
            ValueMapping._create_for_element(build('property', tname, ['1'], ['a']), None, 'ns', 'C', propname='P')
            R.violation('non-integer-type-accepted', type=tname)
        except ModelError:
            pass
        except Exception as e:
            R.violation('non-integer-type-raises-' + type(e).__name__, type=tname)
    R.finish()


main()
