"""Bounded stand-in for C05: equality, hashing and copying of CIM objects are lawful.

Oracles (independent of the pywbem __eq__/__hash__/copy code):
  * spec classes  - every generated object is built from per-attribute pools whose entries carry a hand-assigned
                    equivalence class (case variants, child order, int-vs-UintN, None-vs-default share a class,
                    everything else differs); two objects must be == iff all their attribute classes coincide.
  * canon()       - a canonical form computed from the documented public attributes (hard-coded table below, names
                    lower-cased, child dictionaries as frozensets); used for copies and for "original unchanged".
  * CIMDateTime   - a small reference parser of the DSP0004 string format -> (interval?, instant, precision, offset).
"""
import copy
import itertools
import os
import pickle
import random
import sys
import warnings
from datetime import datetime, timedelta

from bounded.common import Run
from pywbem import (CIMInstanceName, CIMClassName, CIMInstance, CIMClass, CIMProperty, CIMMethod, CIMParameter,
                    CIMQualifier, CIMQualifierDeclaration, CIMDateTime, MinutesFromUTC, Uint8, Uint16, Uint64,
                    Real32, Real64)
from pywbem._nocasedict import NocaseDict

warnings.simplefilter('ignore')

R = Run('9 CIM object classes: objects from per-attribute pools of 3..25 values (case variants, child order, '
        'int vs UintN, None vs default, single changes), baseline + all 1- and 2-attribute deviations (full product '
        'where small; seeded sample beyond the tier budget of 500/1400 objects per class), ALL ordered pairs per class for '
        '==/!=/hash/symmetry/transitivity; copy()/copy.copy/deepcopy/pickle of each object + every single mutation '
        'of the copy to the documented depth; CIMDateTime: 30-value pool (precision, utc offset -999..+999, '
        'intervals 0..99999999 days, from str/datetime/timedelta) all pairs; NocaseDict: all insertion sequences of '
        'length <= 2 (thorough: 3 sampled) over 6 keys x 3 values, all pairs, 5 constructors')

QUICK = R.tier != 'thorough'
RND = random.Random(R.seed)
NMAX = 500 if QUICK else 1400         # objects per class for the all-pairs matrix
NCOPY = 250 if QUICK else 1400       # objects per class whose copies are mutated

_VIOL = {}


def viol(vid, **detail):
    if vid not in _VIOL:
        _VIOL[vid] = detail


def rep(x, n=400):
    try:
        return repr(x)[:n]
    except Exception as e:  # pylint: disable=broad-except
        return '<repr raised %s>' % type(e).__name__


# ---------------------------------------------------------------------------------------------------------------
# reference model: documented public attributes and their comparison kind
# ---------------------------------------------------------------------------------------------------------------
NAME, ITEM, DICT = 'name', 'item', 'dict'
MODEL = {
    CIMInstanceName: [('classname', NAME), ('host', NAME), ('namespace', NAME), ('keybindings', DICT)],
    CIMClassName: [('classname', NAME), ('host', NAME), ('namespace', NAME)],
    CIMInstance: [('classname', NAME), ('path', ITEM), ('properties', DICT), ('qualifiers', DICT)],
    CIMClass: [('classname', NAME), ('superclass', NAME), ('qualifiers', DICT), ('properties', DICT),
               ('methods', DICT), ('path', ITEM)],
    CIMProperty: [('name', NAME), ('value', ITEM), ('type', ITEM), ('reference_class', NAME),
                  ('embedded_object', ITEM), ('is_array', ITEM), ('array_size', ITEM), ('propagated', ITEM),
                  ('class_origin', NAME), ('qualifiers', DICT)],
    CIMMethod: [('name', NAME), ('qualifiers', DICT), ('parameters', DICT), ('return_type', ITEM),
                ('class_origin', NAME), ('propagated', ITEM)],
    CIMParameter: [('name', NAME), ('type', ITEM), ('reference_class', NAME), ('is_array', ITEM),
                   ('array_size', ITEM), ('qualifiers', DICT), ('value', ITEM), ('embedded_object', ITEM)],
    CIMQualifier: [('name', NAME), ('type', ITEM), ('value', ITEM), ('propagated', ITEM), ('overridable', ITEM),
                   ('tosubclass', ITEM), ('toinstance', ITEM), ('translatable', ITEM)],
    CIMQualifierDeclaration: [('name', NAME), ('type', ITEM), ('value', ITEM), ('is_array', ITEM),
                              ('array_size', ITEM), ('scopes', DICT), ('overridable', ITEM), ('tosubclass', ITEM),
                              ('toinstance', ITEM), ('translatable', ITEM)],
}
US = timedelta(microseconds=1)
EPOCH = datetime(1, 1, 1)


def dt_model(x):
    """(interval?, instant in microseconds, precision, utc offset) read from the public attributes."""
    if x.timedelta is not None:
        return ('DT', True, x.timedelta // US, x.precision, x.minutes_from_utc)
    d = x.datetime
    off = d.utcoffset() or timedelta(0)
    return ('DT', False, (d.replace(tzinfo=None) - EPOCH) // US - off // US, x.precision, x.minutes_from_utc)


def fold(s):
    return None if s is None else s.lower()


def canon(x):
    if x is None:
        return ('N',)
    for cls, attrs in MODEL.items():
        if isinstance(x, cls):
            out = [cls.__name__]
            for attr, rel in attrs:
                v = getattr(x, attr)
                if rel == NAME:
                    out.append(fold(v))
                elif rel == DICT:
                    out.append(frozenset((fold(k), canon(w)) for k, w in v.items()))
                else:
                    out.append(canon(v))
            return tuple(out)
    if isinstance(x, CIMDateTime):
        return dt_model(x)
    if hasattr(x, 'items') and hasattr(x, 'keys'):
        return ('D', frozenset((fold(k), canon(w)) for k, w in x.items()))
    if isinstance(x, (list, tuple)):
        return ('L', tuple(canon(e) for e in x))
    if isinstance(x, bool):
        return ('V', x)
    if isinstance(x, int):
        return ('V', int(x))
    if isinstance(x, float):
        return ('V', float(x))
    if isinstance(x, str):
        return ('S', str(x))
    raise TypeError('canon: unexpected %r' % type(x))


# ---------------------------------------------------------------------------------------------------------------
# pools: entry = (label, equivalence class, factory); attribute names starting with '*' are composites whose
# factory returns a dict of constructor keywords
# ---------------------------------------------------------------------------------------------------------------
def c(label, cls, value):
    return (label, cls, lambda: value)


def f(label, cls, fn):
    return (label, cls, fn)


def names(base, other, optional=False, uni=False):
    out = [c(base, 'n0', base), c(base.upper(), 'n0', base.upper()), c(base.lower(), 'n0', base.lower()),
           c(other, 'n1', other)]
    if optional:
        out.insert(0, c('None', 'none', None))
    if uni:
        out += [c('Ärger', 'n2', 'Ärger'), c('äRGER', 'n2', 'äRGER')]
    for e in out:
        v = e[2]()
        assert v is None or v.lower() == v.casefold()     # stay inside the lower()==casefold() assumption boundary
    return out


def flag():
    return [c('None', 'none', None), c('True', 't', True), c('False', 'f', False)]


HOSTS = [c('None', 'none', None), c('acme', 'h0', 'acme.com:5989'), c('ACME', 'h0', 'ACME.Com:5989'),
         c('other', 'h1', 'acme.com:5988')]
NSPACES = [c('None', 'none', None), c('root/cimv2', 's0', 'root/cimv2'), c('ROOT/CIMv2', 's0', 'ROOT/CIMv2'),
           c('interop', 's1', 'interop')]

TS1 = '20180911124613.128000+000'
TS2 = '20180911124613.128001+000'
IV1 = '00000010050607.000000:000'


def tgt(cn='Tgt', k='a', v=1, **kw):
    return CIMInstanceName(cn, {k: v}, **kw)


def keybindings_pool():
    return [
        f('base', 'b', lambda: {'Key1': 'v1', 'Key2': 2}),
        f('reversed', 'b', lambda: [('Key2', 2), ('Key1', 'v1')]),
        f('keycase', 'b', lambda: {'KEY1': 'v1', 'key2': 2}),
        f('uint8', 'b', lambda: {'Key1': 'v1', 'Key2': Uint8(2)}),
        f('uint64', 'b', lambda: NocaseDict([('kEY2', Uint64(2)), ('Key1', 'v1')])),
        f('fromprops', 'b', lambda: [CIMProperty('Key1', 'v1'), CIMProperty('Key2', Uint16(2))]),
        f('valcase', 'vc', lambda: {'Key1': 'V1', 'Key2': 2}),
        f('val', 'v', lambda: {'Key1': 'v1', 'Key2': 3}),
        f('valtype', 'vt', lambda: {'Key1': 'v1', 'Key2': '2'}),
        f('less', 'l', lambda: {'Key1': 'v1'}),
        f('less2', 'l2', lambda: {'Key2': 2}),
        f('more', 'm', lambda: {'Key1': 'v1', 'Key2': 2, 'Key3': True}),
        f('renamed', 'r', lambda: {'Key1x': 'v1', 'Key2': 2}),
        f('swapped', 'sw', lambda: {'Key1': 2, 'Key2': 'v1'}),
        f('None', 'e', lambda: None),
        f('empty', 'e', lambda: {}),
        f('ref', 'ref', lambda: {'Ref': tgt()}),
        f('refcase', 'ref', lambda: {'REF': tgt('TGT', 'A', Uint8(1))}),
        f('refother', 'ref2', lambda: {'Ref': tgt(v=2)}),
        f('refns', 'ref3', lambda: {'Ref': tgt(namespace='ns')}),
        f('dt', 'dt', lambda: {'D': CIMDateTime(TS1)}),
        f('dt2', 'dt2', lambda: {'D': CIMDateTime(TS2)}),
        f('dtiv', 'dt3', lambda: {'D': CIMDateTime(IV1)}),
        f('unnamed', 'un', lambda: [(None, 'v1')]),
        f('unnamed2', 'un2', lambda: [(None, 'V1')]),
    ]


def qualifiers_pool():
    return [
        f('None', 'e', lambda: None),
        f('empty', 'e', lambda: {}),
        f('q1', 'q1', lambda: {'Q1': CIMQualifier('Q1', True)}),
        f('q1case', 'q1', lambda: {'q1': CIMQualifier('q1', True)}),
        f('q1list', 'q1', lambda: [CIMQualifier('Q1', True, type='boolean')]),
        f('q1plain', 'q1', lambda: {'Q1': True}),
        f('q1false', 'q1f', lambda: {'Q1': CIMQualifier('Q1', False)}),
        f('q1flag', 'q1o', lambda: {'Q1': CIMQualifier('Q1', True, overridable=False)}),
        f('q1q2', 'q12', lambda: [CIMQualifier('Q1', True), CIMQualifier('Q2', ['a', 'b'])]),
        f('q2q1', 'q12', lambda: [CIMQualifier('q2', ['a', 'b'], type='string'), CIMQualifier('Q1', True)]),
        f('q1q2rev', 'q12r', lambda: [CIMQualifier('Q1', True), CIMQualifier('Q2', ['b', 'a'])]),
        f('q2', 'q2', lambda: {'Q2': CIMQualifier('Q2', ['a', 'b'])}),
    ]


def parameters_pool():
    return [
        f('None', 'e', lambda: None),
        f('empty', 'e', lambda: {}),
        f('p1', 'p1', lambda: {'P1': CIMParameter('P1', 'string')}),
        f('p1case', 'p1', lambda: {'p1': CIMParameter('p1', 'string', is_array=False)}),
        f('p1list', 'p1', lambda: [CIMParameter('P1', 'string')]),
        f('p1type', 'p1t', lambda: {'P1': CIMParameter('P1', 'uint8')}),
        f('p1arr', 'p1a', lambda: {'P1': CIMParameter('P1', 'string', is_array=True)}),
        f('p1q', 'p1q', lambda: {'P1': CIMParameter('P1', 'string', qualifiers=[CIMQualifier('In', True)])}),
        f('p1p2', 'p12', lambda: [CIMParameter('P1', 'string'), CIMParameter('P2', 'reference',
                                                                             reference_class='Tgt')]),
        f('p2p1', 'p12', lambda: [CIMParameter('P2', 'reference', reference_class='TGT'),
                                  CIMParameter('p1', 'string')]),
        f('p2', 'p2', lambda: [CIMParameter('P2', 'reference', reference_class='Tgt')]),
    ]


def emb(cn='Emb', pn='p', v='v'):
    return CIMInstance(cn, {pn: v})


def tv_common(kind):
    """type/value/is_array/array_size/reference_class/embedded_object composites of CIMProperty and CIMParameter."""
    prop = kind == 'property'

    def kw(**d):
        if not prop and 'type' not in d:
            raise AssertionError
        return lambda: dict(d)
    out = [
        f('str-null', 'sN', kw(value=None, type='string')),
        f('str-null-scalar', 'sN', kw(value=None, type='string', is_array=False)),
        f('str-null-embFalse', 'sN', kw(value=None, type='string', embedded_object=False)),
        f('str-abc', 's1', kw(value='abc', type='string')),
        f('str-abc-explicit', 's1', kw(value='abc', type='string', is_array=False, embedded_object=False,
                                       array_size=None, reference_class=None)),
        f('str-ABC', 's2', kw(value='ABC', type='string')),
        f('str-empty', 's3', kw(value='', type='string')),
        f('char16-a', 'c1', kw(value='a', type='char16')),
        f('str-a', 's4', kw(value='a', type='string')),
        f('u8-5', 'u1', kw(value=5, type='uint8')),
        f('u8-Uint8(5)', 'u1', kw(value=Uint8(5), type='uint8')),
        f('u8-6', 'u2', kw(value=6, type='uint8')),
        f('u8-null', 'u3', kw(value=None, type='uint8')),
        f('u16-5', 'u4', kw(value=5, type='uint16')),
        f('u16-Uint8(5)', 'u4', kw(value=Uint8(5), type='uint16')),
        f('u64-max', 'u5', kw(value=2 ** 64 - 1, type='uint64')),
        f('u64-Uint64max', 'u5', kw(value=Uint64(2 ** 64 - 1), type='uint64')),
        f('s64-min', 'u6', kw(value=-2 ** 63, type='sint64')),
        f('r32-1.5', 'r1', kw(value=1.5, type='real32')),
        f('r32-Real32', 'r1', kw(value=Real32(1.5), type='real32')),
        f('r64-1.5', 'r2', kw(value=Real64(1.5), type='real64')),
        f('bool-T', 'b1', kw(value=True, type='boolean')),
        f('bool-F', 'b2', kw(value=False, type='boolean')),
        f('arr-null', 'aN', kw(value=None, type='string', is_array=True)),
        f('arr-ab', 'a1', kw(value=['a', 'b'], type='string')),
        f('arr-ab-explicit', 'a1', kw(value=['a', 'b'], type='string', is_array=True)),
        f('arr-ba', 'a2', kw(value=['b', 'a'], type='string')),
        f('arr-a', 'a3', kw(value=['a'], type='string')),
        f('arr-aNone', 'a3n', kw(value=['a', None], type='string')),
        f('arr-empty', 'a4', kw(value=[], type='string')),
        f('arr-ab-size2', 'a5', kw(value=['a', 'b'], type='string', array_size=2)),
        f('arr-ab-size3', 'a6', kw(value=['a', 'b'], type='string', array_size=3)),
        f('arru8-12', 'au1', kw(value=[1, 2], type='uint8')),
        f('arru8-Uint8', 'au1', kw(value=[Uint8(1), Uint8(2)], type='uint8', is_array=True)),
        f('arru8-21', 'au2', kw(value=[2, 1], type='uint8')),
        f('ref-null', 'rfN', kw(value=None, type='reference')),
        f('ref-null-cls', 'rfNc', kw(value=None, type='reference', reference_class='Tgt')),
        f('ref-null-CLS', 'rfNc', kw(value=None, type='reference', reference_class='TGT')),
        f('ref-null-cls2', 'rfNd', kw(value=None, type='reference', reference_class='Tgt2')),
        f('ref-val', 'rf1', lambda: dict(value=tgt(), type='reference')),
        f('ref-valcase', 'rf1', lambda: dict(value=tgt('tGT', 'A', Uint8(1)), type='reference')),
        f('ref-val2', 'rf2', lambda: dict(value=tgt(v=2), type='reference')),
        f('ref-val-cls', 'rf3', lambda: dict(value=tgt(), type='reference', reference_class='Tgt')),
        f('emb-inst', 'e1', lambda: dict(value=emb(), type='string', embedded_object='instance')),
        f('emb-instcase', 'e1', lambda: dict(value=emb('EMB', 'P'), type='string', embedded_object='instance')),
        f('emb-inst2', 'e2', lambda: dict(value=emb(v='w'), type='string', embedded_object='instance')),
        f('emb-obj', 'e3', lambda: dict(value=emb(), type='string', embedded_object='object')),
        f('emb-null', 'e4', kw(value=None, type='string', embedded_object='instance')),
        f('emb-objnull', 'e5', kw(value=None, type='string', embedded_object='object')),
        f('emb-cls', 'e6', lambda: dict(value=CIMClass('Emb'), type='string', embedded_object='object')),
        f('emb-arr', 'e7', lambda: dict(value=[emb(), emb(v='w')], type='string', embedded_object='instance')),
        f('dt-ts1', 'd1', lambda: dict(value=CIMDateTime(TS1), type='datetime')),
        f('dt-ts1str', 'd1', kw(value=TS1, type='datetime')),
        f('dt-ts2', 'd2', lambda: dict(value=CIMDateTime(TS2), type='datetime')),
        f('dt-iv', 'd3', lambda: dict(value=CIMDateTime(IV1), type='datetime')),
        f('dt-ivtd', 'd3', lambda: dict(value=timedelta(days=10, hours=5, minutes=6, seconds=7), type='datetime')),
    ]
    if prop:       # CIMProperty infers type / is_array / embedded_object
        out += [
            f('str-abc-inferred', 's1', lambda: dict(value='abc')),
            f('u8-inferred', 'u1', lambda: dict(value=Uint8(5))),
            f('r32-inferred', 'r1', lambda: dict(value=Real32(1.5))),
            f('bool-inferred', 'b1', lambda: dict(value=True)),
            f('arr-inferred', 'a1', lambda: dict(value=['a', 'b'])),
            f('ref-inferred', 'rf1', lambda: dict(value=tgt())),
            f('emb-inferred', 'e1', lambda: dict(value=emb())),
            f('embcls-inferred', 'e6', lambda: dict(value=CIMClass('EMB'))),
            f('dt-inferred', 'd1', lambda: dict(value=CIMDateTime(TS1))),
        ]
    else:          # CIMParameter: only is_array / embedded_object are inferred from the value
        out += [
            f('type-only', 'sN', lambda: dict(type='string')),
            f('arr-inferred', 'a1', lambda: dict(type='string', value=['a', 'b'])),
            f('emb-inferred', 'e1', lambda: dict(type='string', value=emb())),
        ]
    return out


def tv_qualifier():
    def kw(**d):
        return lambda: dict(d)
    return [
        f('str-abc', 's1', kw(value='abc', type='string')),
        f('str-abc-inferred', 's1', kw(value='abc')),
        f('str-ABC', 's2', kw(value='ABC')),
        f('str-null', 'sN', kw(value=None, type='string')),
        f('str-empty', 's3', kw(value='', type='string')),
        f('arr-ab', 'a1', kw(value=['a', 'b'], type='string')),
        f('arr-ab-inferred', 'a1', kw(value=['a', 'b'])),
        f('arr-ba', 'a2', kw(value=['b', 'a'])),
        f('arr-a', 'a3', kw(value=['a'])),
        f('arr-empty', 'a4', kw(value=[], type='string')),
        f('u8-5', 'u1', kw(value=5, type='uint8')),
        f('u8-Uint8(5)', 'u1', kw(value=Uint8(5))),
        f('u8-6', 'u2', kw(value=6, type='uint8')),
        f('u16-5', 'u3', kw(value=5, type='uint16')),
        f('u8-null', 'u4', kw(value=None, type='uint8')),
        f('arru8', 'u5', kw(value=[5], type='uint8')),
        f('bool-T', 'b1', kw(value=True)),
        f('bool-T-typed', 'b1', kw(value=True, type='boolean')),
        f('bool-F', 'b2', kw(value=False)),
        f('r32', 'r1', kw(value=1.5, type='real32')),
        f('r32-Real32', 'r1', kw(value=Real32(1.5))),
        f('r64', 'r2', kw(value=1.5, type='real64')),
    ]


def tv_qualdecl():
    def kw(**d):
        return lambda: dict(d)
    return [
        f('str', 'sN', kw(type='string')),
        f('str-explicit', 'sN', kw(type='string', value=None, is_array=False, array_size=None)),
        f('str-isarrNone', 'sN', kw(type='string', is_array=None)),
        f('str-abc', 's1', kw(type='string', value='abc')),
        f('str-ABC', 's2', kw(type='string', value='ABC')),
        f('arr-null', 'aN', kw(type='string', is_array=True)),
        f('arr-ab', 'a1', kw(type='string', is_array=True, value=['a', 'b'])),
        f('arr-ab-inferred', 'a1', kw(type='string', is_array=None, value=['a', 'b'])),
        f('arr-ba', 'a2', kw(type='string', is_array=True, value=['b', 'a'])),
        f('arr-empty', 'a3', kw(type='string', is_array=True, value=[])),
        f('arr-size2', 'a4', kw(type='string', is_array=True, array_size=2)),
        f('arr-size3', 'a5', kw(type='string', is_array=True, array_size=3)),
        f('u8-5', 'u1', kw(type='uint8', value=5)),
        f('u8-Uint8', 'u1', kw(type='uint8', value=Uint8(5))),
        f('u8-6', 'u2', kw(type='uint8', value=6)),
        f('u16-5', 'u3', kw(type='uint16', value=5)),
        f('u8', 'u4', kw(type='uint8')),
        f('bool-T', 'b1', kw(type='boolean', value=True)),
        f('bool-F', 'b2', kw(type='boolean', value=False)),
        f('bool', 'b3', kw(type='boolean')),
    ]


def scopes_pool():
    return [
        f('None', 'e', lambda: None),
        f('empty', 'e', lambda: {}),
        f('class', 'c', lambda: {'CLASS': True}),
        f('classlower', 'c', lambda: {'class': True}),
        f('classF', 'cf', lambda: {'CLASS': False}),
        f('class+prop', 'cp', lambda: {'CLASS': True, 'PROPERTY': True}),
        f('prop+class', 'cp', lambda: NocaseDict([('Property', True), ('Class', True)])),
        f('class+propF', 'cpf', lambda: {'CLASS': True, 'PROPERTY': False}),
        f('any', 'a', lambda: {'ANY': True}),
    ]


def inst_props_pool():
    return [
        f('base', 'b', lambda: {'P1': 'v1', 'P2': Uint8(2)}),
        f('None', 'e', lambda: None),
        f('empty', 'e', lambda: {}),
        f('reversed', 'b', lambda: [('P2', Uint8(2)), ('P1', 'v1')]),
        f('keycase', 'b', lambda: {'p1': 'v1', 'P2': CIMProperty('p2', 2, type='uint8')}),
        f('objects', 'b', lambda: [CIMProperty('P1', 'v1'), CIMProperty('P2', Uint8(2))]),
        f('ncd', 'b', lambda: NocaseDict([CIMProperty('P2', 2, 'uint8'), CIMProperty('P1', 'v1', type='string')])),
        f('valcase', 'vc', lambda: {'P1': 'V1', 'P2': Uint8(2)}),
        f('val', 'v', lambda: {'P1': 'v1', 'P2': Uint8(3)}),
        f('type', 't', lambda: {'P1': 'v1', 'P2': Uint16(2)}),
        f('null', 'n', lambda: {'P1': 'v1', 'P2': CIMProperty('P2', None, type='uint8')}),
        f('less', 'l', lambda: {'P1': 'v1'}),
        f('more', 'm', lambda: {'P1': 'v1', 'P2': Uint8(2), 'P3': ['x']}),
        f('renamed', 'r', lambda: {'P1': 'v1', 'P2x': Uint8(2)}),
        f('propagated', 'pg', lambda: [CIMProperty('P1', 'v1', propagated=True), CIMProperty('P2', Uint8(2))]),
        f('origin', 'og', lambda: [CIMProperty('P1', 'v1', class_origin='Foo'), CIMProperty('P2', Uint8(2))]),
        f('originCase', 'og', lambda: [CIMProperty('P1', 'v1', class_origin='FOO'), CIMProperty('P2', Uint8(2))]),
        f('emb', 'em', lambda: {'P1': emb()}),
        f('embcase', 'em', lambda: {'P1': emb('eMB', 'P')}),
    ]


def class_props_pool():
    return [
        f('None', 'e', lambda: None),
        f('empty', 'e', lambda: []),
        f('base', 'b', lambda: [CIMProperty('P1', None, type='string'), CIMProperty('P2', None, type='uint8')]),
        f('reversed', 'b', lambda: [CIMProperty('p2', None, type='uint8'), CIMProperty('P1', None, type='string')]),
        f('dict', 'b', lambda: {'p1': CIMProperty('P1', None, type='string'),
                                'P2': CIMProperty('P2', None, type='uint8', is_array=False)}),
        f('type', 't', lambda: [CIMProperty('P1', None, type='string'), CIMProperty('P2', None, type='uint16')]),
        f('default', 'd', lambda: [CIMProperty('P1', 'dflt'), CIMProperty('P2', None, type='uint8')]),
        f('qual', 'q', lambda: [CIMProperty('P1', None, type='string', qualifiers=[CIMQualifier('Key', True)]),
                                CIMProperty('P2', None, type='uint8')]),
        f('less', 'l', lambda: [CIMProperty('P1', None, type='string')]),
        f('ref', 'r', lambda: [CIMProperty('P1', None, type='reference', reference_class='Tgt')]),
        f('refcase', 'r', lambda: [CIMProperty('P1', None, type='reference', reference_class='TGT')]),
    ]


def methods_pool():
    return [
        f('None', 'e', lambda: None),
        f('empty', 'e', lambda: {}),
        f('m1', 'm1', lambda: [CIMMethod('M1', 'uint32')]),
        f('m1case', 'm1', lambda: {'m1': CIMMethod('m1', 'uint32', parameters=[])}),
        f('m1rt', 'm1r', lambda: [CIMMethod('M1', 'string')]),
        f('m1p', 'm1p', lambda: [CIMMethod('M1', 'uint32', parameters=[CIMParameter('X', 'string'),
                                                                       CIMParameter('Y', 'uint8')])]),
        f('m1prev', 'm1p', lambda: [CIMMethod('M1', 'uint32', parameters=[CIMParameter('y', 'uint8'),
                                                                          CIMParameter('x', 'string')])]),
        f('m1m2', 'm12', lambda: [CIMMethod('M1', 'uint32'), CIMMethod('M2', 'uint32')]),
        f('m2m1', 'm12', lambda: [CIMMethod('M2', 'uint32'), CIMMethod('M1', 'uint32')]),
    ]


def ipath_pool():
    return [
        f('None', 'none', lambda: None),
        f('p', 'p', lambda: CIMInstanceName('Foo', {'Key1': 'v1'}, namespace='root/cimv2')),
        f('pcase', 'p', lambda: CIMInstanceName('FOO', {'KEY1': 'v1'}, namespace='Root/CIMV2')),
        f('pkb', 'pk', lambda: CIMInstanceName('Foo', {'Key1': 'v2'}, namespace='root/cimv2')),
        f('pns', 'pn', lambda: CIMInstanceName('Foo', {'Key1': 'v1'})),
        f('phost', 'ph', lambda: CIMInstanceName('Foo', {'Key1': 'v1'}, namespace='root/cimv2', host='acme')),
    ]


def cpath_pool():
    return [
        f('None', 'none', lambda: None),
        f('p', 'p', lambda: CIMClassName('Foo', namespace='root/cimv2')),
        f('pcase', 'p', lambda: CIMClassName('fOO', namespace='ROOT/cimv2')),
        f('pns', 'pn', lambda: CIMClassName('Foo')),
        f('phost', 'ph', lambda: CIMClassName('Foo', namespace='root/cimv2', host='acme')),
        f('pcls', 'pc', lambda: CIMClassName('Bar', namespace='root/cimv2')),
    ]


KINDS = [
    (CIMClassName, [('classname', names('Foo', 'Bar', uni=True)), ('host', HOSTS), ('namespace', NSPACES)]),
    (CIMInstanceName, [('classname', names('Foo', 'Bar', uni=True)), ('keybindings', keybindings_pool()),
                       ('host', HOSTS), ('namespace', NSPACES)]),
    (CIMQualifier, [('name', names('Qual', 'Other', uni=True)), ('*tv', tv_qualifier()), ('propagated', flag()),
                    ('overridable', flag()), ('tosubclass', flag()), ('toinstance', flag()),
                    ('translatable', flag())]),
    (CIMQualifierDeclaration, [('name', names('Qual', 'Other', uni=True)), ('*tv', tv_qualdecl()),
                               ('scopes', scopes_pool()), ('overridable', flag()), ('tosubclass', flag()),
                               ('toinstance', flag()), ('translatable', flag())]),
    (CIMParameter, [('name', names('Parm', 'Other', uni=True)), ('*tv', tv_common('parameter')),
                    ('qualifiers', qualifiers_pool())]),
    (CIMProperty, [('name', names('Prop', 'Other', uni=True)), ('*tv', tv_common('property')),
                   ('class_origin', names('Foo', 'Bar', optional=True)), ('propagated', flag()),
                   ('qualifiers', qualifiers_pool())]),
    (CIMMethod, [('name', names('Meth', 'Other', uni=True)),
                 ('return_type', [c('uint32', 'u32', 'uint32'), c('string', 's', 'string'), c('uint8', 'u8', 'uint8')]),
                 ('parameters', parameters_pool()), ('class_origin', names('Foo', 'Bar', optional=True)),
                 ('propagated', flag()), ('qualifiers', qualifiers_pool())]),
    (CIMInstance, [('classname', names('Foo', 'Bar', uni=True)), ('properties', inst_props_pool()),
                   ('qualifiers', qualifiers_pool()), ('path', ipath_pool())]),
    (CIMClass, [('classname', names('Foo', 'Bar', uni=True)), ('superclass', names('Sup', 'Other', optional=True)),
                ('properties', class_props_pool()), ('methods', methods_pool()), ('qualifiers', qualifiers_pool()),
                ('path', cpath_pool())]),
]


def build(cls, pools, idx):
    kw = {}
    for (attr, entries), i in zip(pools, idx):
        v = entries[i][2]()
        if attr.startswith('*'):
            kw.update(v)
        else:
            kw[attr] = v
    return cls(**kw)


def enumerate_specs(pools, nmax):
    """baseline, all 1-deviations, all 2-deviations (seeded sample beyond nmax), or the full product if small."""
    sizes = [len(e) for _, e in pools]
    total = 1
    for s in sizes:
        total *= s
    if total <= nmax:
        return list(itertools.product(*[range(s) for s in sizes]))
    base = tuple(0 for _ in sizes)
    out = [base]
    for a, s in enumerate(sizes):
        for i in range(1, s):
            out.append(base[:a] + (i,) + base[a + 1:])
    two = []
    for a, b in itertools.combinations(range(len(sizes)), 2):
        for i in range(1, sizes[a]):
            for j in range(1, sizes[b]):
                t = list(base)
                t[a], t[b] = i, j
                two.append(tuple(t))
    room = max(0, nmax - len(out))
    if len(two) > room:
        two = RND.sample(two, room)
    out += sorted(two)
    seen = set(out)
    while len(out) < nmax:                       # fill the budget with seeded draws from the full product
        t = tuple(RND.randrange(s) for s in sizes)
        if t not in seen:
            seen.add(t)
            out.append(t)
    return out


# ---------------------------------------------------------------------------------------------------------------
# the law checks over a list of records (label, spec key, object)
# ---------------------------------------------------------------------------------------------------------------
def diff_attrs(pools, ia, ib, same_class):
    out = []
    for (attr, entries), i, j in zip(pools, ia, ib):
        if i != j and (entries[i][1] == entries[j][1]) == same_class:
            out.append(attr.lstrip('*'))
    return '+'.join(out) or 'nothing'


def value_shape(v):
    """Shape of a property/parameter value: scalar kind (a CIM object class name or 'plain') or array of kinds."""
    def one(e):
        for cls in MODEL:
            if isinstance(e, cls):
                return cls.__name__
        return 'plain'
    if v is None:
        return None
    if isinstance(v, list):
        return ('array', frozenset(one(e) for e in v if e is not None))
    return one(v)


def known_eq_defect(kind, a, b, exc):
    """CIMProperty/CIMParameter.__eq__ compare the values with a bare ==; when one value is a CIM object
    (embedded instance/class, reference) and the other is a plain value, an array or a CIM object of another class,
    the CIM object's own __eq__ raises TypeError instead of the comparison returning False."""
    if kind in ('CIMProperty', 'CIMParameter') and isinstance(exc, TypeError):
        sa, sb = value_shape(a.value), value_shape(b.value)
        involved = set()
        for sh in (sa, sb):
            involved |= set(sh[1]) if isinstance(sh, tuple) else {sh}
        if sa != sb and sa is not None and sb is not None and involved - {'plain'}:
            return 'known:eq-raises-typeerror-for-values-of-different-kinds'
    return None


def check_pairs(kind, recs, describe, viol=None):
    viol = viol or globals()['viol']
    """recs: list of (ident, key, obj).  describe(i, j, expected_equal) -> (suffix for the id, detail dict)."""
    n = len(recs)
    hashes = []
    for ident, _key, o in recs:
        try:
            h = hash(o)
            if h != hash(o):
                viol('hash-unstable-' + kind, obj=rep(o))
        except Exception as e:  # pylint: disable=broad-except
            viol('hash-raises-%s-%s' % (type(e).__name__, kind), obj=rep(o), spec=ident)
            h = None
        hashes.append(h)
    eqsets = [set() for _ in range(n)]
    for i in range(n):
        ida, ka, a = recs[i]
        for j in range(n):
            idb, kb, b = recs[j]
            R.case((kind, 'pair', i, j))
            exp = ka == kb
            try:
                eq = a == b
                ne = a != b
            except Exception as e:  # pylint: disable=broad-except
                viol(known_eq_defect(kind, a, b, e) or 'eq-raises-%s-%s' % (type(e).__name__, kind),
                     a=rep(a), b=rep(b), spec_a=ida, spec_b=idb, error=str(e)[:200])
                if exp:
                    viol('eq-raises-for-equivalent-%s-%s' % (type(e).__name__, kind), a=rep(a), b=rep(b),
                         spec_a=ida, spec_b=idb)
                continue
            if eq is not True and eq is not False:
                viol('eq-returns-non-bool-' + kind, a=rep(a), b=rep(b), got=rep(eq))
            if ne != (not eq):
                viol('ne-not-negation-of-eq-' + kind, a=rep(a), b=rep(b), eq=eq, ne=ne)
            if eq:
                eqsets[i].add(j)
            if eq != exp:
                suffix, det = describe(i, j, exp)
                if exp:
                    viol('eq-false-for-equivalent-%s-%s' % (kind, suffix), a=rep(a), b=rep(b), spec_a=ida,
                         spec_b=idb, **det)
                else:
                    viol('eq-true-for-distinct-%s-%s' % (kind, suffix), a=rep(a), b=rep(b), spec_a=ida,
                         spec_b=idb, **det)
            if eq and hashes[i] is not None and hashes[j] is not None and hashes[i] != hashes[j]:
                suffix, det = describe(i, j, exp)
                viol('hash-differs-for-equal-%s-%s' % (kind, suffix), a=rep(a), b=rep(b), spec_a=ida, spec_b=idb)
    # reflexive / symmetric / transitive on the observed relation alone (no reference model involved)
    for i in range(n):
        if i not in eqsets[i]:
            viol('eq-not-reflexive-' + kind, a=rep(recs[i][2]), spec=recs[i][0])
        for j in eqsets[i]:
            if i not in eqsets[j]:
                viol('eq-not-symmetric-' + kind, a=rep(recs[i][2]), b=rep(recs[j][2]))
            elif eqsets[j] != eqsets[i]:
                k = sorted(eqsets[j] ^ eqsets[i])[0]
                viol('eq-not-transitive-' + kind, a=rep(recs[i][2]), b=rep(recs[j][2]), c=rep(recs[k][2]))
    # set / dict membership follows equality
    for i in range(n):
        a = recs[i][2]
        if hashes[i] is None:
            continue
        try:
            s = {a}
            d = {a: i}
        except Exception:  # pylint: disable=broad-except
            continue
        for j in sorted(eqsets[i])[:6]:
            b = recs[j][2]
            R.case((kind, 'member', i, j))
            try:
                if hashes[j] is not None and (b not in s or d.get(b, None) != i):
                    viol('set-membership-misses-equal-' + kind, a=rep(a), b=rep(b))
            except Exception as e:  # pylint: disable=broad-except
                viol('set-membership-raises-%s-%s' % (type(e).__name__, kind), a=rep(a), b=rep(b))


# ---------------------------------------------------------------------------------------------------------------
# copies and mutation isolation
# ---------------------------------------------------------------------------------------------------------------
COPIERS = [
    ('copy()', lambda o: o.copy(), ('top', 'mid')),
    ('copy.copy', copy.copy, ('top',)),
    ('deepcopy', copy.deepcopy, ('top', 'mid', 'deep')),
    ('pickle', lambda o: pickle.loads(pickle.dumps(o)), ('top', 'mid', 'deep')),
    ('pickle2', lambda o: pickle.loads(pickle.dumps(o, protocol=2)), ('top', 'mid', 'deep')),
]
_NOKEY = object()
NEWITEM = {
    'keybindings': lambda k: 'zzval',
    'properties': lambda k: CIMProperty(k, 'zzval'),
    'qualifiers': lambda k: CIMQualifier(k, 'zzval'),
    'methods': lambda k: CIMMethod(k, 'sint8'),
    'parameters': lambda k: CIMParameter(k, 'sint8'),
    'scopes': lambda k: 'zzval',
}


def first_key(d):
    for k in d.keys():
        return k
    return _NOKEY


def poke(x):
    """Mutate a (nested) CIM object in place; False if it is immutable / not a CIM object."""
    for cls, attrs in MODEL.items():
        if isinstance(x, cls):
            setattr(x, attrs[0][0], 'Zzz9')
            return True
    return False


def mutators(cls):
    """-> list of (name, level, fn(copy) -> applied?)"""
    out = []
    for attr, rel in MODEL[cls]:
        if rel == NAME:
            out.append(('set-' + attr, 'top', lambda o, attr=attr: (setattr(o, attr, 'Zzz9'), True)[1]))
        elif rel == DICT:
            new = NEWITEM[attr]

            def add(o, attr=attr, new=new):
                getattr(o, attr)['Zz_new'] = new('Zz_new')
                return True

            def dele(o, attr=attr):
                d = getattr(o, attr)
                k = first_key(d)
                if k is _NOKEY:
                    return False
                del d[k]
                return True

            def repl(o, attr=attr, new=new):
                d = getattr(o, attr)
                k = first_key(d)
                if k is _NOKEY:
                    return False
                d[k] = new(k)
                return True

            def rebind(o, attr=attr, new=new):
                setattr(o, attr, {'Zz_only': new('Zz_only')})
                return True

            def nested(o, attr=attr):
                d = getattr(o, attr)
                k = first_key(d)
                return k is not _NOKEY and poke(d[k])
            out += [(attr + '-add', 'mid', add), (attr + '-del', 'mid', dele), (attr + '-replace', 'mid', repl),
                    (attr + '-rebind', 'top', rebind), (attr + '-child-object-set-name', 'deep', nested)]
        elif attr in ('propagated', 'overridable', 'tosubclass', 'toinstance', 'translatable'):
            out.append(('set-' + attr, 'top', lambda o, attr=attr: (setattr(o, attr, not getattr(o, attr)), True)[1]))
        elif attr == 'array_size':
            out.append(('set-array_size', 'top', lambda o: (setattr(o, 'array_size', 77), True)[1]))
        elif attr == 'path':
            def pset(o):
                if o.path is None:
                    return False
                o.path.classname = 'Zzz9'
                return True

            def pns(o):
                if o.path is None:
                    return False
                o.path.namespace = 'zz/zz'
                return True

            def pkb(o):
                if not isinstance(o.path, CIMInstanceName):
                    return False
                o.path.keybindings['Zz_new'] = 'zzval'
                return True

            def pnone(o):
                if o.path is None:
                    return False
                o.path = None
                return True
            out += [('path-set-classname', 'mid', pset), ('path-set-namespace', 'mid', pns),
                    ('path-keybindings-add', 'mid', pkb), ('path-rebind-None', 'top', pnone)]
        elif attr == 'value':
            def vappend(o):
                if not isinstance(o.value, list):
                    return False
                o.value.append(o.value[0] if o.value else None)
                return True

            def vpop(o):
                if not isinstance(o.value, list) or not o.value:
                    return False
                o.value.pop()
                return True

            def vrepl(o):
                if not isinstance(o.value, list) or not o.value:
                    return False
                o.value[0] = None
                return True

            def vobj(o):
                v = o.value
                if isinstance(v, list):
                    return bool(v) and poke(v[0])
                return poke(v)

            def vnull(o):
                if o.value is None:
                    return False
                o.value = None
                return True
            out += [('value-list-append', 'mid', vappend), ('value-list-pop', 'mid', vpop),
                    ('value-list-replace', 'mid', vrepl), ('value-object-set-name', 'mid', vobj),
                    ('value-rebind-None', 'top', vnull)]
    if cls in (CIMInstance, CIMInstanceName):
        out.append(('setitem', 'mid', lambda o: (o.__setitem__('Zz_new', 'zzval'), True)[1]))
        out.append(('update', 'mid', lambda o: (o.update({'Zz_upd': 'zzval'}), True)[1]))
    return out


def known_copy_defect(kind, copier, what, mut=None):
    """Narrow identification of the copy defects reproduced on the unchanged tree."""
    if kind in ('CIMProperty', 'CIMParameter') and copier == 'copy()' and what == 'leak' \
            and mut == 'value-object-set-name':
        # copy() passes the embedded CIMInstance/CIMClass or the CIMInstanceName reference value through cimvalue(),
        # which returns the very same object, although the docstring only exempts the qualifier objects
        return 'known:copy-shares-embedded-object-or-reference-value'
    if kind == 'NocaseDict' and copier == 'copy()' and what in ('type', 'hash-raises-TypeError'):
        return 'known:nocasedict-copy-returns-unhashable-base-class'
    return None


def check_copies(kind, ident, make, muts):
    o = make()
    snap = canon(o)
    for cname, fn, levels in COPIERS:
        if cname == 'copy()' and not hasattr(o, 'copy'):
            continue
        R.case((kind, 'copy', cname, ident))
        try:
            cp = fn(o)
        except Exception as e:  # pylint: disable=broad-except
            viol('%s-raises-%s-%s' % (cname, type(e).__name__, kind), obj=rep(o), spec=ident, error=str(e)[:200])
            continue
        det = dict(obj=rep(o), copy=rep(cp), spec=ident)
        if cp is o and muts:
            viol('%s-returns-same-object-%s' % (cname, kind), **det)
        if type(cp) is not type(o):
            viol(known_copy_defect(kind, cname, 'type') or '%s-changes-type-%s' % (cname, kind),
                 copy_type=rep(type(cp)), **det)
        try:
            if not (cp == o) or not (o == cp) or (cp != o) or (o != cp):
                viol('%s-not-equal-to-original-%s' % (cname, kind), **det)
        except Exception as e:  # pylint: disable=broad-except
            viol('%s-eq-raises-%s-%s' % (cname, type(e).__name__, kind), **det)
        try:
            if canon(cp) != snap:
                viol('%s-differs-in-public-attributes-%s' % (cname, kind), **det)
        except Exception as e:  # pylint: disable=broad-except
            viol('%s-attributes-raise-%s-%s' % (cname, type(e).__name__, kind), **det)
        try:
            if hash(cp) != hash(o):
                viol('%s-hash-differs-%s' % (cname, kind), **det)
        except Exception as e:  # pylint: disable=broad-except
            viol(known_copy_defect(kind, cname, 'hash-raises-' + type(e).__name__) or
                 '%s-hash-raises-%s-%s' % (cname, type(e).__name__, kind), **det)
        for mname, level, mfn in muts:
            if level not in levels:
                continue
            try:
                cp = fn(o)
                applied = mfn(cp)
                effective = applied and canon(cp) != snap
            except Exception as e:  # pylint: disable=broad-except
                viol('mutate-%s-of-%s-raises-%s-%s' % (mname, cname, type(e).__name__, kind), obj=rep(o), spec=ident,
                     error=str(e)[:200])
                continue
            if not effective:
                continue
            R.case((kind, 'mutate', cname, mname, ident))
            if canon(o) != snap:
                viol(known_copy_defect(kind, cname, 'leak', mname) or
                     'mutating-%s-result-changes-original-%s-%s' % (cname, kind, mname),
                     original_before=rep(make()), original_after=rep(o), spec=ident, mutation=mname)
                o = make()          # the original is damaged: continue with a fresh one


def run_kind(cls, pools):
    kind = cls.__name__
    recs = []
    idxs = {}
    for idx in enumerate_specs(pools, NMAX):
        ident = (kind,) + tuple(e[i][0] for (_, e), i in zip(pools, idx))
        key = tuple(e[i][1] for (_, e), i in zip(pools, idx))
        try:
            recs.append((ident, key, build(cls, pools, idx)))
            idxs[ident] = idx
        except Exception as e:  # pylint: disable=broad-except
            viol('harness-cannot-build-' + kind, spec=ident, error='%s: %s' % (type(e).__name__, e))

    def describe(i, j, exp):
        return diff_attrs(pools, idxs[recs[i][0]], idxs[recs[j][0]], exp), {}
    if os.environ.get('C05_DEBUG'):
        sys.stderr.write('%s: %d objects, %d classes\n' % (kind, len(recs), len({r[1] for r in recs})))
    check_pairs(kind, recs, describe)
    # a second, independently built twin of every object: reflexivity without the identity shortcut
    for ident, key, o in recs:
        R.case((kind, 'twin', ident))
        twin = build(cls, pools, idxs[ident])
        try:
            if not (o == twin) or (o != twin) or hash(o) != hash(twin):
                viol('eq-false-for-identically-built-' + kind, a=rep(o), spec=ident)
        except Exception as e:  # pylint: disable=broad-except
            viol('eq-raises-%s-%s' % (type(e).__name__, kind), a=rep(o), b=rep(twin), spec_a=ident, spec_b=ident)
    # the canonical form agrees with the spec classes (guards the harness: a canon() bug must not hide behind copies)
    bykey = {}
    bycanon = {}
    for ident, key, o in recs:
        ck = canon(o)
        other = bykey.setdefault(key, (ck, ident))
        if other[0] != ck:
            viol('public-attributes-differ-for-equivalent-' + kind, spec_a=ident, spec_b=other[1], a=rep(o))
        other = bycanon.setdefault(ck, (key, ident))
        if other[0] != key:
            viol('public-attributes-same-for-distinct-' + kind, spec_a=ident, spec_b=other[1], a=rep(o))
    muts = mutators(cls)
    for ident, key, o in recs[:NCOPY]:
        check_copies(kind, ident, lambda ident=ident: build(cls, pools, idxs[ident]), muts)


# ---------------------------------------------------------------------------------------------------------------
# CIMDateTime against an independent reference of the DSP0004 string format
# ---------------------------------------------------------------------------------------------------------------
def ref_datetime(s):
    """Reference parse of a 25-character CIM datetime string -> (interval?, instant us, precision, offset)."""
    assert len(s) == 25
    prec = s.index('*') if '*' in s else None

    def num(a, b, lo=0, pad='0'):
        t = s[a:b]
        if t == '*' * (b - a):
            return lo
        return int(t.replace('*', pad))
    if s[21] == ':':
        days, hh, mm, ss, us = num(0, 8), num(8, 10), num(10, 12), num(12, 14), num(15, 21)
        return (True, (((days * 24 + hh) * 60 + mm) * 60 + ss) * 10 ** 6 + us, prec, 0)
    off = int(s[22:25]) * (-1 if s[21] == '-' else 1)
    d = datetime(num(0, 4), num(4, 6, 1), num(6, 8, 1), num(8, 10), num(10, 12), num(12, 14), num(15, 21))
    return (False, (d - EPOCH) // US - off * 60 * 10 ** 6, prec, off)


def datetime_pool():
    out = []

    def s(text):
        out.append(('str:' + text, ref_datetime(text), lambda: CIMDateTime(text)))
    for text in (TS1, '20180911124613.128***+000', '20180911124613.1*****+000', '20180911134613.128000+060',
                 '20180911114613.128000-060', '20180911124613.128000+060', TS2, '20180911124613.128000-000',
                 '20180911******.******+000', '20180911000000.000000+000', '2018**********.******+000',
                 '20180101000000.000000+000', '20180912052513.128000+999', '20180910200713.128000-999',
                 '00010101000000.000000+000', '00010101000000.000000-001', '99991231235959.999999+000',
                 '99991231235959.999999+001', '20200229235959.999999+000',
                 IV1, '00000010050607.000***:000', '00000010050607.000001:000', '00000000000000.000000:000',
                 '**************.******:000', '99999999235959.999999:000', '00000010******.******:000',
                 '00000010000000.000000:000'):
        s(text)
    out.append(('datetime-naive', ref_datetime(TS1), lambda: CIMDateTime(datetime(2018, 9, 11, 12, 46, 13, 128000))))
    out.append(('datetime-utc+60', ref_datetime('20180911134613.128000+060'),
                lambda: CIMDateTime(datetime(2018, 9, 11, 13, 46, 13, 128000, MinutesFromUTC(60)))))
    out.append(('datetime-utc-60', ref_datetime('20180911114613.128000-060'),
                lambda: CIMDateTime(datetime(2018, 9, 11, 11, 46, 13, 128000, MinutesFromUTC(-60)))))
    out.append(('timedelta', ref_datetime(IV1),
                lambda: CIMDateTime(timedelta(days=10, hours=5, minutes=6, seconds=7))))
    out.append(('timedelta-0', ref_datetime('00000000000000.000000:000'), lambda: CIMDateTime(timedelta(0))))
    out.append(('bytes', ref_datetime(TS1), lambda: CIMDateTime(TS1.encode('ascii'))))
    return out


def run_datetime():
    kind = 'CIMDateTime'
    pool = datetime_pool()
    recs = []
    for label, model, mk in pool:
        try:
            recs.append(((kind, label), model, mk()))
        except Exception as e:  # pylint: disable=broad-except
            viol('datetime-constructor-raises-' + type(e).__name__, input=label, error=str(e)[:200])
    # the public attributes agree with the reference parse (guards the model used below)
    for ident, model, o in recs:
        R.case((kind, 'attrs', ident))
        got = dt_model(o)[1:]
        if got != model:
            viol('datetime-public-attributes-differ-from-reference', input=ident[1], observed=rep(got),
                 expected=rep(model))

    def describe(i, j, exp):
        ma, mb = recs[i][1], recs[j][1]
        names_ = ('is_interval', 'instant', 'precision', 'minutes_from_utc')
        return '+'.join(n for n, x, y in zip(names_, ma, mb) if x != y) or 'nothing', {}

    # route the two documented-as-observed defects to their own ids, everything else stays a plain violation
    def filtered(vid, **detail):
        if vid.startswith('eq-true-for-distinct-CIMDateTime-'):
            what = vid[len('eq-true-for-distinct-CIMDateTime-'):].split('+')
            if what in (['precision'], ['precision', 'minutes_from_utc']):
                vid = 'known:datetime-eq-ignores-precision'
            elif what == ['minutes_from_utc']:
                vid = 'known:datetime-eq-ignores-utc-offset'
        viol(vid, **detail)
    check_pairs(kind, recs, describe, filtered)
    makers = {label: mk for label, _m, mk in pool}
    for ident, model, o in recs:
        twin = makers[ident[1]]()
        R.case((kind, 'twin', ident))
        if not (o == twin) or (o != twin) or hash(o) != hash(twin):
            viol('eq-false-for-identically-built-' + kind, a=rep(o), spec=ident)
        check_copies(kind, ident, makers[ident[1]], [])


# ---------------------------------------------------------------------------------------------------------------
# NocaseDict against a plain dict keyed by the lower-cased key
# ---------------------------------------------------------------------------------------------------------------
NKEYS = ['a', 'A', 'Bc', 'bC', 'ä', 'Ä']
NVALS = [1, 2, None]


def ncd_build(how, seq):
    d = NocaseDict()
    if how == 0:
        for k, v in seq:
            d[k] = v
    elif how == 1:
        d = NocaseDict(list(seq))
    elif how == 2:
        d.update(list(seq))
    elif how == 3:
        for k, v in seq:
            d[k.swapcase()] = 'junk'
            del d[k]
            d.setdefault(k, v)
    elif how == 4:
        for k, v in reversed(seq):
            if k.lower() not in [x.lower() for x in d.keys()]:
                d[k] = v
    else:
        d = NocaseDict(dict(seq)) if len({k for k, _ in seq}) == len(seq) else NocaseDict(seq)
    return d


def run_nocasedict():
    kind = 'NocaseDict'
    ops = [(k, v) for k in NKEYS for v in NVALS]
    seqs = [()] + [(o,) for o in ops] + list(itertools.product(ops, repeat=2))
    if QUICK:
        seqs = seqs[:1 + len(ops)] + RND.sample(seqs[1 + len(ops):], 200)
    else:
        seqs += RND.sample(list(itertools.product(ops, repeat=3)), 500)
    recs = []
    makers = {}
    for n, seq in enumerate(seqs):
        model = {}
        for k, v in seq:
            model[k.lower()] = v            # reference: last assignment per lower-cased key wins
        ident = (kind, n % 6, seq)
        makers[ident] = lambda how=n % 6, seq=seq: ncd_build(how, seq)
        recs.append((ident, frozenset(model.items()), makers[ident]()))
    # CIM objects as members
    extra = [
        ('objs', 'o1', lambda: NocaseDict([CIMQualifier('Q1', True), CIMQualifier('Q2', 'x')])),
        ('objs-rev', 'o1', lambda: NocaseDict([('q2', CIMQualifier('q2', 'x')), ('q1', CIMQualifier('q1', True))])),
        ('objs-other', 'o2', lambda: NocaseDict([CIMQualifier('Q1', True), CIMQualifier('Q2', 'X')])),
        ('mixed-kinds', 'o3', lambda: NocaseDict([('Q1', CIMQualifier('Q1', True)), ('Q2', CIMProperty('Q2', 'x'))])),
        ('lists', 'o4', lambda: NocaseDict([('L', (1, 2))])),
        ('lists2', 'o5', lambda: NocaseDict([('l', (2, 1))])),
    ]
    for label, key, mk in extra:
        makers[(kind, label)] = mk
        recs.append(((kind, label), key, mk()))

    def describe(i, j, exp):
        return 'content', {}
    check_pairs(kind, recs, describe)

    def dele(d):
        if not len(d):
            return False
        del d[first_key(d)]
        return True

    def repl(d):
        if not len(d):
            return False
        d[first_key(d)] = 'zz'
        return True
    muts = [('add', 'mid', lambda d: (d.__setitem__('Zz_new', 9), True)[1]), ('del', 'mid', dele),
            ('replace', 'mid', repl), ('clear', 'mid', lambda d: bool(len(d)) and (d.clear(), True)[1])]
    for ident, key, d in recs[:NCOPY]:
        check_copies(kind, ident, makers[ident], muts)


def main():
    sections = [(lambda cls=cls, pools=pools: run_kind(cls, pools), cls.__name__) for cls, pools in KINDS]
    sections += [(run_datetime, 'CIMDateTime'), (run_nocasedict, 'NocaseDict')]
    for fn, name in sections:
        try:
            fn()
        except Exception as e:  # pylint: disable=broad-except
            import traceback
            viol('harness-section-crashed-' + name, error='%s: %s' % (type(e).__name__, e),
                 where=traceback.format_exc()[-600:])
    order = sorted(_VIOL, key=lambda v: (v.startswith('known:'), v))
    if os.environ.get('C05_DEBUG'):
        for vid in order:
            sys.stderr.write('%s %s\n' % (vid, rep(_VIOL[vid], 1500)))
    for vid in order:
        R.violation(vid, **_VIOL[vid])
    R.finish()


main()
