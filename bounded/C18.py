"""Bounded stand-in for C18: WBEMSubscriptionManager ownership against an independent ghost model of the
server content (sets of instance names per class) with a string-split ownership predicate.

The real code under test is pywbem.WBEMSubscriptionManager driving pywbem_mock (FakedWBEMConnection with
the subscription providers); the observation points are get_owned_*/get_all_*, the exceptions, and the
interop instance store of the mock read directly (not through the manager).

Failing server calls (family 6): the client-facing operations of the mock connection are wrapped (Injector) so that
the k-th operation issued during ONE manager call raises CIMError(CIM_ERR_FAILED) or pywbem.ConnectionError without
being executed, for every k up to the number of operations that call makes (dry run). After the failed call the server
content must lie between the state before the call and the state after the complete call, and every live manager's
owned lists must equal the owned instances that are in the server now. Then either the same call is repeated and the
manager leaves (nothing owned may remain, a new manager with the same id finds nothing), or a new manager with the
same id must rediscover exactly what is left. The one situation no client can handle is modelled explicitly: mode
'lost' executes the CreateInstance/DeleteInstance in the server and then raises ConnectionError (reply lost); the one
instance concerned is exempted from the list comparison of the acting manager object (History.exempt), nothing else."""
import copy
import io
import itertools
import os
import random
import sys
import warnings
import zlib
from contextlib import redirect_stdout

from bounded.common import Run

if os.getcwd() not in sys.path:
    sys.path.append(os.getcwd())       # the mock-server builder lives in the tests package of the source tree (cwd)
with redirect_stdout(io.StringIO()):   # the test helper prints a banner on import
    from tests.unittest.utils.wbemserver_mock import WbemServerMock
    from tests.unittest.pywbem.test_subscriptionmanager import SUBSCRIPTION_WBEM_SERVER_MOCK_DICT
from pywbem import WBEMServer, WBEMSubscriptionManager, CIMInstanceName, CIMInstance, CIMError
from pywbem import ConnectionError as WBEMConnectionError

warnings.simplefilter('ignore')

R = Run('WBEMSubscriptionManager on 1..2 pywbem_mock servers x 1..3 managers vs a ghost model of the server content: '
        'ordered pairs of a 21-id pool (regex metachars, mutual prefixes, case, empty; thorough: all 420, quick: 70) '
        'through create/discover/remove/restart; all op sequences of length <= 2 (quick) / <= 3 (thorough) over a '
        '18-symbol alphabet for 1 manager x 1 server + seeded longer ones; 14 listener-URL forms x 7 persistence '
        'types x owned/permanent; unregistered-server, colon-in-id, host-in-path scenarios; seeded random histories '
        'of 10..24 ops (duplicate adds, removals in any order, list arguments, restarts, foreign instances); '
        'failing server calls: for 23 manager calls (add_server with cached/fresh WBEMServer, add_destination, '
        'add_filter, add_subscriptions, remove_subscriptions, remove_filter, remove_destinations, remove_server, '
        'remove_all_servers on 2 servers, __exit__; quick: 20) on a populated server with 2 managers the k-th '
        'Create/Get/Delete/Enumerate/ReferenceNames call of that one manager call (every k, from a dry run) raises '
        'CIMError(FAILED) or ConnectionError before execution, or ConnectionError after execution (reply lost: '
        'Create/Delete only, the lost instance is the one modelled exception), then retry or restart recovery '
        '(quick: one error kind and one recovery per position, 1 id pair; thorough: the product, 3 id pairs); '
        'remove_server/remove_all_servers/__exit__ refused partway because of another manager\'s subscription (5 '
        'shapes); seeded random histories with one faulted call (quick 25, thorough 500)')

FIL = 'CIM_IndicationFilter'
DST = 'CIM_ListenerDestinationCIMXML'
SUB = 'CIM_IndicationSubscription'
PRE = {FIL: 'pywbemfilter:', DST: 'pywbemdestination:'}
NS = 'interop'
ALREADY_EXISTS = 11
FAILED = 1


# ---------------------------------------------------------------- reference predicates (no regex)

def owner_of(name, prefix):
    """The manager id that owns an instance with this Name, or None: name = prefix . id . ':' . d, ':' not in id, d."""
    if not name.startswith(prefix):
        return None
    parts = name[len(prefix):].split(':')
    if len(parts) != 2:
        return None
    return parts[0]


def owned_by(name, prefix, mid):
    o = owner_of(name, prefix)
    return o is not None and o == mid


def is_regex_active(mid):
    return any(c in '.^$*+?{}[]\\|()' for c in mid)


# Listener URLs: hand-written table url -> normalized form (None = must be refused with ValueError,
# 'either' = doc says accepted (scheme defaults to http), the code refuses; both tolerated, no state change
# if refused).
URLS = {
    'http://host1:5000': 'http://host1:5000',
    'https://host1:5000': 'https://host1:5000',
    'HTTP://host1:5000': 'http://host1:5000',
    'HttpS://host1:5000': 'https://host1:5000',
    'http://host1:5001': 'http://host1:5001',
    'http://host1.dom.example:5000': 'http://host1.dom.example:5000',
    'http://10.11.12.13:5000': 'http://10.11.12.13:5000',
    'https://[2001:db8::1]:5000': 'https://[2001:db8::1]:5000',
    'http://[fe80::1-eth0]:5000': 'http://[fe80::1-eth0]:5000',
    'http://host1': None,
    'https://host1': None,
    'ftp://host1:5000': None,
    'http://host1:50x0': None,
    'host1:5000': 'either',
}
URL_OK = [u for u, n in URLS.items() if n not in (None, 'either')]
PTYPES = {None: None, 'permanent': 2, 'transient': 3, 'Transient': 3, 'PERMANENT': 2, 'bogus': 'bad', 3: 'bad'}


# ---------------------------------------------------------------- failing server calls

class Injector:
    """Wraps the client-facing operations of the mock connections. Transparent unless armed; when armed with (k, mode)
    the k-th top-level operation (operations the mock's providers issue internally while serving a request are not
    counted) fails:
      'cim'  : CIMError(CIM_ERR_FAILED) instead of executing the request,
      'conn' : pywbem.ConnectionError instead of executing the request,
      'lost' : the request is executed by the server, then pywbem.ConnectionError (the reply is lost)."""
    OPS = ('CreateInstance', 'GetInstance', 'DeleteInstance', 'EnumerateInstances', 'ReferenceNames',
           'ModifyInstance', 'EnumerateInstanceNames')

    def __init__(self):
        self.depth = 0
        self.disarm()

    def disarm(self):
        self.k = None
        self.mode = None
        self.log = []
        self.fired = None      # name of the operation that was made to fail
        self.lost = None       # (instance path, server index) of the instance created/deleted by a lost-reply call

    def arm(self, k, mode):
        self.disarm()
        self.k, self.mode = k, mode

    def install(self, conn, si):
        for name in self.OPS:
            setattr(conn, name, self.wrap(name, getattr(conn, name), si))

    def wrap(self, name, orig, si):
        def call(*a, **kw):
            if self.depth or self.k is None:
                return orig(*a, **kw)
            self.log.append(name)
            self.depth += 1
            try:
                if len(self.log) != self.k:
                    return orig(*a, **kw)
                if self.mode == 'lost':
                    res = orig(*a, **kw)      # a semantic refusal by the server propagates as it is (nothing lost)
                    self.fired = name
                    if name in ('CreateInstance', 'DeleteInstance'):
                        self.lost = (res if name == 'CreateInstance' else a[0], si)
                    raise WBEMConnectionError('injected fault: reply lost')
                self.fired = name
                if self.mode == 'cim':
                    raise CIMError(FAILED, 'injected fault')
                raise WBEMConnectionError('injected fault')
            finally:
                self.depth -= 1
        return call


INJ = Injector()


# ---------------------------------------------------------------- the real servers (built once, reset per case)

class Srv:
    def __init__(self, url):
        with redirect_stdout(io.StringIO()):
            mock = WbemServerMock(interop_ns=NS, server_mock_data=SUBSCRIPTION_WBEM_SERVER_MOCK_DICT, url=url)
        self.conn = mock.wbem_server.conn
        INJ.install(self.conn, len(SERVERS))
        self.url = self.conn.url
        self.sysname = mock.wbem_server.cimom_inst['SystemName']
        self.store = self.conn.cimrepository.get_instance_store(NS)
        # a server without registered profiles (they are irrelevant here and every enumeration deep-copies them)
        for n in list(self.store.iter_names()):
            if n.classname in ('CIM_RegisteredProfile', 'CIM_ReferencedProfile', 'CIM_ElementConformsToProfile'):
                self.store.delete(n)
        self.wbem_server = WBEMServer(self.conn)
        _ = (self.wbem_server.interop_ns, self.wbem_server.cimom_inst)   # cached from here on (deterministic call counts)
        self.nreg = 0

    def server_object(self):
        """A WBEMServer for add_server: normally the long-lived one, every 8th time a fresh one."""
        self.nreg += 1
        if self.nreg % 8 == 0:
            return WBEMServer(self.conn)
        return self.wbem_server

    def reset(self):
        for n in list(self.store.iter_names()):
            if n.classname in (FIL, DST, SUB):
                self.store.delete(n)

    def dump(self):
        """The filter/destination/subscription instances, for load() (the store copies on the way in and out)."""
        return [(n, self.store.get(n)) for n in list(self.store.iter_names()) if n.classname in (FIL, DST, SUB)]

    def load(self, dumped):
        self.reset()
        for n, inst in dumped:
            self.store.create(n, inst)

    def snapshot(self):
        fil, dst, sub = set(), {}, set()
        for inst in self.store.iter_values(copy=False):
            c = inst.path.classname
            if c == FIL:
                fil.add(inst.path.keybindings['Name'])
            elif c == DST:
                dst[inst.path.keybindings['Name']] = (inst['Destination'], int(inst['PersistenceType']))
            elif c == SUB:
                sub.add(sub_key(inst.path))
        return fil, dst, sub

    def path(self, cls, name, host=None):
        return CIMInstanceName(cls, keybindings=dict(CreationClassName=cls, Name=name,
                                                     SystemCreationClassName='CIM_ComputerSystem',
                                                     SystemName=self.sysname), namespace=NS, host=host)

    def subpath(self, fn, dn):
        return CIMInstanceName(SUB, keybindings=[('Filter', self.path(FIL, fn)), ('Handler', self.path(DST, dn))],
                               namespace=NS)


def sub_key(path):
    return (path.keybindings['Filter'].keybindings['Name'], path.keybindings['Handler'].keybindings['Name'])


SERVERS = []


def servers(n):
    while len(SERVERS) < n:
        SERVERS.append(Srv(None if not SERVERS else 'http://other%d:5988' % len(SERVERS)))
    return SERVERS[:n]


# ---------------------------------------------------------------- ghost model

class MSrv:
    def __init__(self):
        self.fil = set()
        self.dst = {}     # name -> (normalized url, persistence type)
        self.sub = {}     # (filter name, destination name) -> owning manager id, or None (permanent/foreign)


class History:
    """Runs operations on the real managers/servers and on the model side by side."""

    def __init__(self, family, ids, nsrv, relabel=None):
        self.family = family
        self.ids = list(ids)
        self.srv = servers(nsrv)
        for s in self.srv:
            s.reset()
        self.msrv = [MSrv() for _ in self.srv]
        self.mgr = [WBEMSubscriptionManager(i) for i in self.ids]
        self.reg = [set() for _ in self.ids]       # model: registered server indexes per manager
        self.trace = []
        self.relabel = relabel
        self.vids = []
        self.fixed_server_objects = False   # True: add_server always gets the long-lived (warm) WBEMServer
        self.exempt = {}        # (manager, server, class) -> keys of instances created/deleted by a lost-reply call
        self.partial = set()    # managers whose remove_server/remove_all_servers/__exit__ failed partway
        self.last_fired = None  # operation name the injector made fail in the current step
        self.resync_on_mismatch = False

    # ---- checkpoints (a populated state is built once and cloned for every case that starts from it)
    def checkpoint(self):
        return dict(stores=[srv.dump() for srv in self.srv], mgr=[clone_manager(m) for m in self.mgr],
                    model=self.copy_model(), trace=list(self.trace), ids=list(self.ids), nsrv=len(self.srv))

    @classmethod
    def restore(cls, cp, family, relabel=None):
        H = cls(family, cp['ids'], cp['nsrv'], relabel=relabel)
        for srv, dumped in zip(H.srv, cp['stores']):
            srv.load(dumped)
        H.mgr = [clone_manager(m) for m in cp['mgr']]
        for S, (fil, dst, sub) in zip(H.msrv, cp['model'][0]):
            S.fil, S.dst, S.sub = set(fil), dict(dst), dict(sub)
        H.reg = [set(r) for r in cp['model'][1]]
        H.trace = list(cp['trace'])
        return H

    # ---- reporting
    def report(self, vid, **detail):
        op = self.trace[-1] if self.trace else None
        if self.relabel:
            vid = self.relabel(vid, op, self)
        self.vids.append(vid)
        if vid in KNOWN_WHAT:
            detail['what'] = KNOWN_WHAT[vid]
        R.violation(vid, family=self.family, manager_ids=self.ids, nservers=len(self.srv),
                    history=list(self.trace), **detail)

    # ---- model helpers
    def exp_owned(self, m, s):
        mid, S = self.ids[m], self.msrv[s]
        return ({n for n in S.fil if owned_by(n, PRE[FIL], mid)},
                {n for n in S.dst if owned_by(n, PRE[DST], mid)},
                {k for k, o in S.sub.items() if o is not None and o == mid})

    def model(self, op):
        """Apply op to the model; return (set of accepted outcomes, expected return descriptor or None)."""
        kind = op[0]
        if kind in ('foreign_filter', 'foreign_dest', 'foreign_sub'):
            S = self.msrv[op[1]]
            if kind == 'foreign_filter':
                S.fil.add(op[2])
            elif kind == 'foreign_dest':
                S.dst[op[2]] = (op[3], 2)
            else:
                S.sub[(op[2], op[3])] = None
            return {'ok'}, None
        m = op[1]
        mid = self.ids[m]
        if kind == 'restart':
            self.reg[m] = set()
            self.partial.discard(m)
            for key in [key for key in self.exempt if key[0] == m]:
                del self.exempt[key]
            return {'ok'}, None
        if kind in ('unreg_all', 'exit', 'exit_exc'):
            for s in sorted(self.reg[m]):
                self.model_unreg(m, s)
            return {'ok'}, None
        s = op[2]
        S = self.msrv[s]
        if kind == 'reg':
            if s in self.reg[m]:
                return {'ValueError'}, None
            self.reg[m].add(s)
            return {'ok'}, ('url', self.srv[s].url)
        if s not in self.reg[m]:
            return {'ValueError'}, None
        if kind == 'unreg':
            self.model_unreg(m, s)
            return {'ok'}, None
        if kind == 'add_filter':
            _, _, _, owned, ident = op
            if owned:
                if ':' in ident:
                    return {'ValueError'}, None
                name = PRE[FIL] + mid + ':' + ident
            else:
                name = ident
            if name in S.fil:
                return {'CIMError:%d' % ALREADY_EXISTS}, None
            S.fil.add(name)
            return {'ok'}, ('name', {name})
        if kind == 'add_dest':
            _, _, _, owned, ident, url, ptype = op
            norm, pt = URLS[url], PTYPES[ptype]
            if norm is None or pt == 'bad' or (owned and ':' in ident):
                return {'ValueError'}, None
            if owned and pt is None:
                pt = 3
            name = PRE[DST] + mid + ':' + ident if owned else ident
            acc = set()
            if norm == 'either':
                acc.add('ValueError')
                norm = 'http://' + url
            if name in S.dst:
                acc.add('CIMError:%d' % ALREADY_EXISTS)
            reuse = {n for n in self.exp_owned(m, s)[1] if S.dst[n] == (norm, pt)} if owned else set()
            if reuse:
                acc.add('ok')
                return acc, ('dest', reuse, norm, pt)
            if name in S.dst:
                return acc, None
            if 'ValueError' in acc:
                # scheme-less URL: outcome decides; model is updated by the caller on 'ok'
                return acc | {'ok'}, ('dest-deferred', name, norm, pt if pt is not None else 2)
            S.dst[name] = (norm, pt if pt is not None else 2)
            return {'ok'}, ('dest', {name}, norm, pt if pt is not None else 2)
        if kind == 'add_sub':
            _, _, _, fn, dns, owned = op[:6]
            of, od, _ = self.exp_owned(m, s)
            if dns is None:
                dlist = sorted(od)
            elif isinstance(dns, tuple):
                dlist = list(dns)
            else:
                dlist = [dns]
            keys = []
            for dn in dlist:
                if not owned and (fn in of or dn in od):
                    return {'ValueError'}, None
                if fn not in S.fil or dn not in S.dst:
                    return {'CIMError'}, None
                k = (fn, dn)
                if k in S.sub:
                    if not (owned and S.sub[k] is not None and S.sub[k] == mid):
                        return {'CIMError:%d' % ALREADY_EXISTS}, None
                else:
                    S.sub[k] = mid if owned else None
                keys.append(k)
            return {'ok'}, ('subs', keys, dns is None)
        if kind in ('rm_filter', 'rm_dest'):
            names = op[3] if isinstance(op[3], tuple) else [op[3]]
            for n in names:
                pool = S.fil if kind == 'rm_filter' else S.dst
                if n not in pool:
                    return {'CIMError'}, None
                idx = 0 if kind == 'rm_filter' else 1
                if any(k[idx] == n for k in S.sub):
                    return {'CIMError:%d' % FAILED}, None
                if kind == 'rm_filter':
                    S.fil.discard(n)
                else:
                    del S.dst[n]
            return {'ok'}, None
        if kind == 'rm_sub':
            keys = op[3] if isinstance(op[3], list) else [op[3]]
            for k in keys:
                if k not in S.sub:
                    return {'CIMError'}, None
                del S.sub[k]
            return {'ok'}, None
        raise AssertionError(op)

    def model_unreg(self, m, s):
        of, od, os_ = self.exp_owned(m, s)
        S = self.msrv[s]
        for k in os_:
            del S.sub[k]
        S.fil -= of
        for n in od:
            del S.dst[n]
        self.reg[m].discard(s)

    # ---- real side
    def real(self, op):
        kind = op[0]
        if kind.startswith('foreign_'):
            srv = self.srv[op[1]]
            if kind == 'foreign_filter':
                inst = CIMInstance(FIL, properties=dict(CreationClassName=FIL, SystemCreationClassName='CIM_ComputerSystem',
                                                        SystemName=srv.sysname, Name=op[2], Query='SELECT * FROM CIM_X',
                                                        QueryLanguage='WQL'))
            elif kind == 'foreign_dest':
                inst = CIMInstance(DST, properties=dict(CreationClassName=DST, SystemCreationClassName='CIM_ComputerSystem',
                                                        SystemName=srv.sysname, Name=op[2], Destination=op[3]))
            else:
                inst = CIMInstance(SUB, properties=dict(Filter=srv.path(FIL, op[2]), Handler=srv.path(DST, op[3])))
                inst.path = srv.subpath(op[2], op[3])
            return srv.conn.CreateInstance(inst, namespace=NS)
        m = op[1]
        mgr = self.mgr[m]
        if kind == 'restart':
            self.mgr[m] = WBEMSubscriptionManager(self.ids[m])   # the old object is simply dropped
            return None
        if kind == 'unreg_all':
            return mgr.remove_all_servers()
        if kind == 'exit':
            with mgr as x:
                assert x is mgr
            return None
        if kind == 'exit_exc':
            try:
                with mgr:
                    raise ZeroDivisionError('marker')
            except ZeroDivisionError:
                return None
        srv = self.srv[op[2]]
        sid = srv.url
        if kind == 'reg':
            if len(op) > 3 and op[3] == 'fresh':
                return mgr.add_server(WBEMServer(srv.conn))     # interop namespace and object manager not cached yet
            return mgr.add_server(srv.wbem_server if self.fixed_server_objects else srv.server_object())
        if kind == 'unreg':
            return mgr.remove_server(sid)
        if kind == 'add_filter':
            kw = dict(filter_id=op[4]) if op[3] else dict(name=op[4])
            return mgr.add_filter(sid, 'root/cimv2', 'SELECT * FROM CIM_AlertIndication', owned=op[3], **kw)
        if kind == 'add_dest':
            kw = dict(destination_id=op[4]) if op[3] else dict(name=op[4])
            return mgr.add_destination(sid, op[5], owned=op[3], persistence_type=op[6], **kw)
        # rm_filter/rm_dest may carry a 5th element 'host': the path is then spelled with the host component
        host = srv.conn.host if kind in ('rm_filter', 'rm_dest') and len(op) > 4 and op[4] == 'host' else None
        if kind == 'add_sub':
            fp = srv.path(FIL, op[3])
            dns = op[4]
            if dns is None:
                dp = None
            elif isinstance(dns, tuple):
                dp = [srv.path(DST, d) for d in dns]
            else:
                dp = srv.path(DST, dns)
            return mgr.add_subscriptions(sid, fp, dp, owned=op[5])
        if kind == 'rm_filter':
            return mgr.remove_filter(sid, srv.path(FIL, op[3], host=host))
        if kind == 'rm_dest':
            if isinstance(op[3], tuple):
                return mgr.remove_destinations(sid, [srv.path(DST, d) for d in op[3]])
            return mgr.remove_destinations(sid, srv.path(DST, op[3], host=host))
        if kind == 'rm_sub':
            if isinstance(op[3], list):
                return mgr.remove_subscriptions(sid, [srv.subpath(*k) for k in op[3]])
            return mgr.remove_subscriptions(sid, srv.subpath(*op[3]))
        raise AssertionError(op)

    # ---- one step
    def copy_model(self):
        return [(set(S.fil), dict(S.dst), dict(S.sub)) for S in self.msrv], [set(r) for r in self.reg]

    def step(self, op, final=False, fault=None, quiet=False):
        """Returns True if no violation was seen at this step.
        fault = (k, mode): the k-th server call of this manager call fails (see Injector); fault = ('natural',): the
        call is expected to be refused partway by the server for a semantic reason. quiet: outcome check only."""
        injecting = fault is not None and fault[0] != 'natural'
        if injecting:
            self.trace.append(('with-fault', fault[0], fault[1]))
        self.trace.append(op)
        n0 = len(self.vids)
        kind = op[0]
        self.last_fired = None
        pre = self.copy_model() if fault is not None or self.resync_on_mismatch else None
        accepted, ret = self.model(op)
        post = self.copy_model() if pre is not None else None
        if injecting:
            INJ.arm(*fault)
        try:
            val = self.real(op)
            got = 'ok'
        except ValueError as e:
            got, val = 'ValueError', e
        except CIMError as e:
            got, val = 'CIMError:%d' % e.status_code, e
        except Exception as e:  # noqa
            got, val = type(e).__name__, e
        finally:
            fired, lost = INJ.fired, INJ.lost
            INJ.disarm()
        if fired:
            self.last_fired = fired
            self.trace[-2] = self.trace[-2] + (fired,)
        if fired or (fault is not None and not injecting and got != 'ok'):
            return self.after_failure(op, pre, post, got, val, fired, lost)
        if ret is not None and ret[0] == 'dest-deferred':
            if got == 'ok':
                self.msrv[op[2]].dst[ret[1]] = (ret[2], ret[3])
                ret = ('dest', {ret[1]}, ret[2], ret[3])
            else:
                ret = None
        if not (got in accepted or ('CIMError' in accepted and got.startswith('CIMError:'))):
            # the model did not follow what really happened: report the outcome only, the history ends here
            self.report('outcome-%s-expected-%s-got-%s' % (kind, '|'.join(sorted(accepted)), got),
                        observed=repr(val)[:300])
            if self.resync_on_mismatch:
                self.reg = pre[1]
                self.resync(kind, pre, post, check=False)
            return False
        if got == 'ok' and kind in UNREG_KINDS:
            self.partial.discard(op[1])
        if quiet:
            return True
        if got == 'ok' and ret is not None:
            self.check_return(kind, ret, val)
        self.check_state(kind, op, with_get_all=final or len(self.trace) % 4 == 0)
        return len(self.vids) == n0

    def resync(self, kind, pre, post, check=True):
        """After a call that failed partway: the server content must lie between the model before the call and the
        model after the complete call (nothing else created, nothing else deleted); the model then follows the server
        (subscription owners: as before the call, or as the complete call would have set them)."""
        for si, srv in enumerate(self.srv):
            fil, dst, sub = srv.snapshot()
            P, Q, S = pre[0][si], post[0][si], self.msrv[si]
            if check:
                for cls, real, p, q in (('filter', fil, P[0], Q[0]), ('destination', set(dst), set(P[1]), set(Q[1])),
                                        ('subscription', sub, set(P[2]), set(Q[2]))):
                    if (real - p) - (q - p):
                        self.report('server-state-after-%s-%s-extra' % (kind, cls), server=si,
                                    extra=sorted((real - p) - (q - p)))
                    if (p - real) - (p - q):
                        self.report('server-state-after-%s-%s-missing' % (kind, cls), server=si,
                                    missing=sorted((p - real) - (p - q)))
            S.fil = set(fil)
            S.dst = {n: (P[1][n] if n in P[1] else Q[1].get(n, dst[n])) for n in dst}
            S.sub = {k: (P[2][k] if k in P[2] else Q[2].get(k)) for k in sub}

    def after_failure(self, op, pre, post, got, val, fired, lost):
        """The manager call met a failing server call (injected, or a semantic refusal partway)."""
        n0 = len(self.vids)
        kind = 'fault-' + op[0]
        m = op[1]
        if fired:
            expected = ('CIMError:%d' % FAILED,) if INJ_MODE_EXC[self.trace[-2][2]] == 'cim' else ('ConnectionError',)
            if got == 'ok':
                # the manager absorbed the failure: then the complete effect of the call is required
                self.check_state(kind, op, with_get_all=True)
                return len(self.vids) == n0
            if got not in expected or 'injected fault' not in str(val):
                self.report('outcome-%s-%s-got-%s' % (kind, fired, got), observed=repr(val)[:300])
        elif got != 'CIMError:%d' % FAILED:
            self.report('outcome-%s-refused-got-%s' % (kind, got), observed=repr(val)[:300])
        self.reg = pre[1]
        self.resync(kind, pre, post)
        if lost is not None:
            # The one situation in which no client can keep its list equal to the server: the server executed the
            # request and the reply never arrived. The instance concerned is exempted from the comparison of the
            # acting manager's lists (until that manager object is dropped), and only that instance.
            path, si = lost
            cls = {FIL: 'filter', DST: 'destination', SUB: 'subscription'}[path.classname]
            key = sub_key(path) if cls == 'subscription' else path.keybindings['Name']
            self.exempt.setdefault((m, si, cls), set()).add((fired, key))
        # registration of the acting manager
        if op[0] in ('unreg', 'unreg_all', 'exit', 'exit_exc'):
            self.partial.add(m)
            for si in sorted(pre[1][m]):
                if not any(self.exp_owned(m, si)) and not really_registered(self.mgr[m], self.srv[si].url):
                    self.reg[m].discard(si)     # everything of that server was deleted and it was dropped: fine
        # op[0] == 'reg': a failed add_server must not leave the server registered (model: as before the call)
        self.check_state(kind, op, with_get_all=False)
        return len(self.vids) == n0

    def check_return(self, kind, ret, val):
        try:
            if ret[0] == 'url':
                if val != ret[1]:
                    self.report('return-value-reg-server-id', observed=repr(val))
            elif ret[0] == 'name':
                if val.path.keybindings['Name'] not in ret[1] or val['Name'] not in ret[1]:
                    self.report('return-value-%s-name' % kind, observed=repr(val.path)[:300], expected=sorted(ret[1]))
            elif ret[0] == 'dest':
                if val.path.keybindings['Name'] not in ret[1]:
                    self.report('return-value-add_dest-name', observed=repr(val.path)[:300], expected=sorted(ret[1]))
                elif val['Destination'] != ret[2]:
                    self.report('return-value-add_dest-destination-url', observed=val['Destination'], expected=ret[2])
                elif int(val['PersistenceType']) != ret[3]:
                    self.report('return-value-add_dest-persistencetype', observed=repr(val['PersistenceType']),
                                expected=ret[3])
            elif ret[0] == 'subs':
                got = [sub_key(i.path) for i in val]
                if (sorted(got) != sorted(ret[1])) if ret[2] else (got != ret[1]):
                    self.report('return-value-add_sub-instances', observed=got, expected=ret[1])
        except Exception as e:  # noqa
            self.report('return-value-%s-malformed' % kind, observed=repr(e)[:200])

    def check_state(self, kind, op, with_get_all=True):
        # 1. server content (read from the instance store, not through the manager) == model
        for si, (srv, S) in enumerate(zip(self.srv, self.msrv)):
            fil, dst, sub = srv.snapshot()
            for cls, real, exp in (('filter', fil, S.fil), ('destination', set(dst), set(S.dst)),
                                   ('subscription', sub, set(S.sub))):
                if real - exp:
                    self.report('server-state-after-%s-%s-extra' % (kind, cls), server=si, extra=sorted(real - exp))
                if exp - real:
                    self.report('server-state-after-%s-%s-missing' % (kind, cls), server=si,
                                missing=sorted(exp - real))
            for n in set(dst) & set(S.dst):
                if dst[n] != S.dst[n]:
                    self.report('server-state-after-%s-destination-properties' % kind, server=si, name=n,
                                observed=dst[n], expected=S.dst[n])
        # 2. every live manager: registration set and owned lists == owned instances in the server
        for m, mgr in enumerate(self.mgr):
            for si, srv in enumerate(self.srv):
                lists, registered = [], True
                for getter in (mgr.get_owned_filters, mgr.get_owned_destinations, mgr.get_owned_subscriptions):
                    try:
                        lists.append(getter(srv.url))
                    except ValueError:
                        registered = False
                        break
                    except Exception as e:  # noqa
                        self.report('get-owned-raises-' + type(e).__name__, manager=m, server=si,
                                    getter=getter.__name__)
                        lists.append(None)
                if registered != (si in self.reg[m]):
                    self.report('registration-after-%s-%s' % (kind, 'kept' if registered else 'lost'), manager=m,
                                server=si)
                    continue
                if not registered:
                    continue
                exp = self.exp_owned(m, si)
                real_now = srv.snapshot()
                for cls, lst, e, now in zip(('filter', 'destination', 'subscription'), lists, exp,
                                            (real_now[0], set(real_now[1]), real_now[2])):
                    if lst is None:
                        continue
                    try:
                        names = [sub_key(i.path) if cls == 'subscription' else i.path.keybindings['Name'] for i in lst]
                    except Exception as ex:  # noqa
                        self.report('owned-list-after-%s-%s-malformed' % (kind, cls), observed=repr(ex)[:200])
                        continue
                    if len(names) != len(set(names)):
                        self.report('owned-list-after-%s-%s-duplicate' % (kind, cls), manager=m, server=si,
                                    observed=sorted(names))
                    # instances created/deleted by a call whose reply was lost: may or may not be in the list
                    ex = {k for _, k in self.exempt.get((m, si, cls), ())}
                    e = e - ex
                    if set(names) - e - ex:
                        self.report('owned-list-after-%s-%s-extra' % (kind, cls), manager=m, server=si,
                                    extra=sorted(set(names) - e - ex))
                    miss = e - set(names)
                    if miss and kind == 'reg' and cls == 'subscription' and (m, si) == (op[1], op[2]):
                        # Discovery cannot see an owned subscription whose filter and destination are both not
                        # owned (subscriptions carry no Name): reported under its own id; the model then forgets
                        # the owner (the instance has become a foreign one) and the history goes on.
                        mid = self.ids[m]
                        lost = {k for k in miss if not owned_by(k[0], PRE[FIL], mid) and
                                not owned_by(k[1], PRE[DST], mid)}
                        if lost:
                            R.violation('known:rediscovery-misses-owned-subscription-on-unowned-filter-and-destination',
                                        family=self.family, manager_ids=self.ids, nservers=len(self.srv),
                                        history=list(self.trace), manager=m, server=si, missing=sorted(lost))
                            for k in lost:
                                self.msrv[si].sub[k] = None
                            miss -= lost
                    if miss:
                        self.report('owned-list-after-%s-%s-missing' % (kind, cls), manager=m, server=si,
                                    missing=sorted(miss))
                    if set(names) - now - ex:
                        self.report('owned-list-after-%s-%s-entry-not-in-server' % (kind, cls), manager=m, server=si,
                                    stale=sorted(set(names) - now - ex))
                    if cls == 'destination':
                        for i in lst:
                            n = i.path.keybindings['Name']
                            if n in self.msrv[si].dst and \
                                    (i['Destination'], int(i['PersistenceType'])) != self.msrv[si].dst[n]:
                                self.report('owned-list-after-%s-destination-properties' % kind, manager=m, name=n)
                    lst.clear()    # the returned list must be a copy: checked at the next step
        # 3. get_all_* of the acting manager == server content
        if with_get_all and len(op) > 2 and isinstance(op[1], int) and isinstance(op[2], int) \
                and not kind.startswith('foreign') and op[2] in self.reg[op[1]]:
            mgr, srv, S = self.mgr[op[1]], self.srv[op[2]], self.msrv[op[2]]
            try:
                af = sorted(i.path.keybindings['Name'] for i in mgr.get_all_filters(srv.url))
                ad = sorted(i.path.keybindings['Name'] for i in mgr.get_all_destinations(srv.url))
                as_ = sorted(sub_key(i.path) for i in mgr.get_all_subscriptions(srv.url))
                if (af, ad, as_) != (sorted(S.fil), sorted(S.dst), sorted(S.sub)):
                    self.report('get-all-after-%s-differs-from-server' % kind, observed=(af, ad, as_))
            except Exception as e:  # noqa
                self.report('get-all-raises-' + type(e).__name__, observed=repr(e)[:200])

    def run(self, ops):
        for i, op in enumerate(ops):
            if not self.step(op, final=(i == len(ops) - 1)):
                return False
        return True


# ---------------------------------------------------------------- family 1: ordered pairs of manager ids

INERT_IDS = ['abc', 'ab', 'a', 'ABC', 'abc ', '', 'owned', 'x/y#z', 'é-1', 'pywbemfilter']
ACTIVE_IDS = ['a.c', 'ab*', '.*', '(', '[abc]', 'abc|x', 'a+', 'ab?c', 'abc$', '^abc', 'a{1}']
FOREIGN_F = ['perm1', 'DMTF:Indications:GlobalAlertIndicationFilter', 'pywbemfilter:abc', 'pywbemfilter:abc:f1:x',
             'xpywbemfilter:abc:f1', 'pywbemfilter:owned:thishost:abc:f1:x', 'pywbemfilter', 'PYWBEMFILTER:abc:f1']
FOREIGN_D = ['permd1', 'pywbemdestination:abc', 'pywbemdestination:abc:d1:x', 'xpywbemdestination:abc:d1',
             'pywbemdestination:owned:thishost:abc:d1', 'pywbemdestination', 'pywbemfilter:abc:f1']
for _n in FOREIGN_F:
    assert owner_of(_n, PRE[FIL]) is None
for _n in FOREIGN_D:
    assert owner_of(_n, PRE[DST]) is None


def regex_relabel(vid, op, H):
    """Failures of managers whose id contains regex metacharacters (id spliced unescaped into the discovery
    pattern in add_server) are the known defect; everything else keeps its own id."""
    if op is None or op[0] != 'reg' or not is_regex_active(H.ids[op[1]]):
        return vid
    if vid.startswith('owned-list-after-reg-') and vid.endswith('-extra'):
        return 'known:regex-id-discovers-foreign-instance'
    if vid.startswith('owned-list-after-reg-') and vid.endswith('-missing'):
        return 'known:regex-id-misses-own-instance-on-rediscovery'
    if vid == 'outcome-reg-expected-ok-got-error' or vid == 'outcome-reg-expected-ok-got-PatternError':
        return 'known:regex-id-add-server-raises-re-error'
    if vid == 'registration-after-reg-kept':
        # add_server raised re.error after it had already entered the server into its tables
        return 'known:regex-id-add-server-raises-re-error'
    return vid


def pair_case(id1, id2):
    R.case(('pair', id1, id2))
    H = History('id-pair', [id1, id2], 1, relabel=regex_relabel)
    u1, u2 = 'http://host1:5000', 'https://host1:5000'
    pf, pd = PRE[FIL] + id1 + ':f1', PRE[DST] + id1 + ':d1'
    ops = [('reg', 0, 0), ('add_filter', 0, 0, True, 'f1'), ('add_dest', 0, 0, True, 'd1', u1, None),
           ('add_sub', 0, 0, pf, pd, True), ('add_filter', 0, 0, False, 'perm1'),
           ('foreign_filter', 0, 'pywbemfilter:%s:f1:x' % id2), ('foreign_dest', 0, 'pywbemdestination:' + id2, u2),
           ('reg', 1, 0)]
    if not H.run(ops):
        if H.vids == ['known:regex-id-discovers-foreign-instance'] * len(H.vids):
            # consequences on the same real state: the claiming manager deletes the other one's instances
            before = H.srv[0].snapshot()
            try:
                H.mgr[1].remove_server(H.srv[0].url)
            except Exception:  # noqa
                pass
            after = H.srv[0].snapshot()
            gone = sorted((before[0] - after[0]) | (set(before[1]) - set(after[1])))
            if gone:
                H.trace.append(('unreg', 1, 0))
                R.violation('known:regex-id-remove-server-deletes-foreign-instance', family='id-pair',
                            manager_ids=H.ids, nservers=1, history=list(H.trace), deleted=gone)
                stale = [i.path.keybindings['Name'] for i in H.mgr[0].get_owned_filters(H.srv[0].url)
                         if i.path.keybindings['Name'] not in after[0]]
                if stale:
                    R.violation('known:regex-id-leaves-stale-entry-in-other-manager', family='id-pair',
                                manager_ids=H.ids, nservers=1, history=list(H.trace), stale=stale)
        return
    ops = [('add_filter', 1, 0, True, 'f1'), ('add_dest', 1, 0, True, 'd1', u1, None),
           ('add_sub', 1, 0, 'perm1', None, True), ('restart', 0), ('reg', 0, 0), ('unreg', 1, 0),
           ('rm_sub', 0, 0, (pf, pd)), ('exit', 0)]
    H.run(ops)


# ---------------------------------------------------------------- family 2: short sequences, 1 manager x 1 server

SYMS = ['REG', 'UNREG', 'RESTART', 'EXIT', 'AF', 'AF2', 'AFp', 'AD', 'ADdup', 'ADpt', 'ADp', 'AS', 'ASx', 'ASp', 'RF', 'RFp',
        'RD', 'RS']


def resolve(sym, H):
    mid, S = H.ids[0], H.msrv[0]
    of, od, os_ = H.exp_owned(0, 0)
    pf = sorted(S.fil - of)
    pdn = sorted(set(S.dst) - od)
    if sym == 'REG':
        return ('reg', 0, 0)
    if sym == 'UNREG':
        return ('unreg', 0, 0)
    if sym == 'RESTART':
        return ('restart', 0)
    if sym == 'EXIT':
        return ('exit', 0)
    if 0 not in H.reg[0] and sym in ('AS', 'ASx', 'ASp'):
        return ('reg', 0, 0)    # add_subscriptions on an unregistered server is covered separately (known)
    if sym == 'AF':
        return ('add_filter', 0, 0, True, 'f1')
    if sym == 'AF2':
        return ('add_filter', 0, 0, True, '')
    if sym == 'AFp':
        return ('add_filter', 0, 0, False, 'pywbemfilter:%s:f1:x' % mid)
    if sym == 'AD':
        return ('add_dest', 0, 0, True, 'd1', 'http://host1:5000', None)
    if sym == 'ADdup':
        return ('add_dest', 0, 0, True, 'd2', 'HTTP://host1:5000', 'transient')
    if sym == 'ADpt':
        return ('add_dest', 0, 0, True, 'd3', 'http://host1:5000', 'permanent')
    if sym == 'ADp':
        return ('add_dest', 0, 0, False, 'pywbemdestination:%s' % mid, 'http://host1:5000', None)
    if sym == 'AS':
        return ('add_sub', 0, 0, (sorted(of) + pf + ['nonexistent'])[0], None, True)
    if sym == 'ASx':
        return ('add_sub', 0, 0, (pf + sorted(of) + ['nonexistent'])[0], tuple(sorted(S.dst)) or 'nonexistent', True)
    if sym == 'ASp':
        return ('add_sub', 0, 0, (pf + sorted(of) + ['nonexistent'])[0], (pdn + sorted(od) + ['nonexistent'])[0], False)
    if sym == 'RF':
        return ('rm_filter', 0, 0, (sorted(of) + ['nonexistent'])[0])
    if sym == 'RFp':
        return ('rm_filter', 0, 0, (pf + ['nonexistent'])[0])
    if sym == 'RD':
        return ('rm_dest', 0, 0, tuple(sorted(S.dst)) or 'nonexistent')
    if sym == 'RS':
        return ('rm_sub', 0, 0, (sorted(S.sub) + [('nonexistent', 'nonexistent')])[0])
    raise AssertionError(sym)


def seq_case(mid, syms):
    R.case(('seq', mid) + tuple(syms))
    H = History('short-sequence', [mid], 1)
    if not H.step(('reg', 0, 0)):
        return
    for sym in syms:
        if not H.step(resolve(sym, H)):
            return
    # final clean-up must leave exactly the non-owned instances
    H.step(('reg', 0, 0) if 0 not in H.reg[0] else ('unreg_all', 0))


# ---------------------------------------------------------------- family 3: listener URL forms x persistence

def url_case(url, ptype, owned, quick=False):
    R.case(('url', url, ptype, owned))
    H = History('listener-url', ['abc', 'ab'], 1)
    ident = 'd.1' if owned else 'pywbemdestination:abc:d.1:perm'
    canon = URLS[url] if URLS[url] not in (None, 'either') else 'http://host1:5000'
    ops = [('reg', 0, 0), ('reg', 1, 0), ('add_dest', 0, 0, owned, ident, url, ptype),
           # the canonical spelling of the same URL, same persistence type, other id: reuse iff owned
           ('add_dest', 0, 0, owned, ident + '2', canon, ptype if PTYPES[ptype] != 'bad' else None),
           # same URL, other persistence type: a new instance
           ('add_dest', 0, 0, owned, ident + '3', canon, 'permanent' if PTYPES[ptype] in (None, 3) else 'transient'),
           # same URL by another manager: never reused
           ('add_dest', 1, 0, True, 'd.1', canon, None),
           ('add_filter', 0, 0, True, 'f'), ('add_sub', 0, 0, PRE[FIL] + 'abc:f', None, True),
           ('restart', 0), ('reg', 0, 0), ('exit_exc', 0), ('unreg', 1, 0)]
    H.run(ops)


# ---------------------------------------------------------------- family 4: dedicated scenarios

def colon_relabel(vid, op, H):
    if vid == 'outcome-add_dest-expected-ValueError-got-ok' and op[0] == 'add_dest' and op[3] and ':' in op[4]:
        return 'known:destination-id-with-colon-accepted'
    return vid


def keyerror_relabel(vid, op, H):
    if vid == 'outcome-add_sub-expected-ValueError-got-KeyError' and op[2] not in H.reg[op[1]]:
        return 'known:add-subscriptions-unknown-server-raises-KeyError'
    return vid


def host_relabel(vid, op, H):
    hosted = op[0] in ('rm_filter', 'rm_dest') and len(op) > 4 and op[4] == 'host'
    if hosted and vid.startswith('owned-list-after-rm_') and \
            (vid.endswith('-extra') or vid.endswith('-entry-not-in-server')):
        return 'known:remove-with-host-in-path-leaves-stale-owned-entry'
    return vid


def dedicated(quick):
    # destination_id containing ':' (documented as not allowed, enforced for filter_id only)
    for did in ('x:y', ':', 'abc:d1'):
        R.case(('dest-colon', did))
        H = History('destination-id-colon', ['abc'], 1, relabel=colon_relabel)
        if not H.run([('reg', 0, 0), ('add_dest', 0, 0, True, did, 'http://host1:5000', None)]):
            if H.vids == ['known:destination-id-with-colon-accepted']:
                name = PRE[DST] + 'abc:' + did
                m2 = WBEMSubscriptionManager('abc')
                sid = m2.add_server(WBEMServer(H.srv[0].conn))
                if name in H.srv[0].snapshot()[1] and \
                        name not in [i.path.keybindings['Name'] for i in m2.get_owned_destinations(sid)]:
                    R.violation('known:destination-id-with-colon-orphaned-after-restart', family='destination-id-colon',
                                manager_ids=['abc'], history=H.trace + [('restart', 0), ('reg', 0, 0)], orphan=name)
    for fid in ('x:y', ':'):
        R.case(('filter-colon', fid))
        History('filter-id-colon', ['abc'], 1).run([('reg', 0, 0), ('add_filter', 0, 0, True, fid),
                                                    ('add_filter', 0, 0, True, 'ok'), ('exit', 0)])
    # operations on a server that is not (or no longer) registered
    for prep in ([], [('reg', 0, 0), ('restart', 0)]) if quick else \
            ([], [('reg', 0, 0), ('unreg', 0, 0)], [('reg', 0, 0), ('restart', 0)], [('reg', 0, 1)]):
        for op in (('add_sub', 0, 0, 'perm1', 'permd1', True), ('add_sub', 0, 0, 'perm1', None, True),
                   ('add_sub', 0, 0, 'perm1', ('permd1',), False), ('add_filter', 0, 0, True, 'f'),
                   ('add_dest', 0, 0, True, 'd', 'http://host1:5000', None), ('rm_filter', 0, 0, 'perm1'),
                   ('rm_dest', 0, 0, 'permd1'), ('rm_sub', 0, 0, ('perm1', 'permd1')), ('unreg', 0, 0)):
            R.case(('unregistered', len(prep), repr(prep[-1:]), op))
            H = History('unregistered-server', ['abc'], 2, relabel=keyerror_relabel)
            H.run([('foreign_filter', 0, 'perm1'), ('foreign_dest', 0, 'permd1', 'http://f:1')] + prep + [op])
    # instance paths that carry a host component
    for tail in ([('rm_filter', 0, 0, PRE[FIL] + 'abc:f1', 'host')],
                 [('rm_dest', 0, 0, PRE[DST] + 'abc:d1', 'host')],
                 [('rm_filter', 0, 0, 'perm1', 'host'), ('rm_dest', 0, 0, 'permd1', 'host')]):
        R.case(('host-path', repr(tail)))
        H = History('host-in-path', ['abc'], 1, relabel=host_relabel)
        H.run([('reg', 0, 0), ('add_filter', 0, 0, True, 'f1'), ('add_dest', 0, 0, True, 'd1', 'http://host1:5000', None),
               ('add_filter', 0, 0, False, 'perm1'), ('add_dest', 0, 0, False, 'permd1', 'http://host1:5001', None)] +
              tail + [('unreg_all', 0)])
    # owned subscription between a permanent filter and a permanent destination, then client restart
    for fo, do in ((False, False), (True, False), (False, True), (True, True)):
        R.case(('owned-sub-ends', fo, do))
        fn = PRE[FIL] + 'abc:f1' if fo else 'perm1'
        dn = PRE[DST] + 'abc:d1' if do else 'permd1'
        History('owned-subscription-ends', ['abc', 'ab'], 1).run(
            [('reg', 0, 0), ('reg', 1, 0), ('add_filter', 0, 0, fo, 'f1' if fo else 'perm1'),
             ('add_dest', 0, 0, do, 'd1' if do else 'permd1', 'http://host1:5000', None),
             ('add_sub', 0, 0, fn, dn, True), ('add_sub', 0, 0, fn, dn, True), ('add_sub', 1, 0, 'perm1', 'permd1', True),
             ('restart', 0), ('reg', 0, 0), ('add_sub', 0, 0, fn, dn, False), ('rm_filter', 0, 0, fn),
             ('unreg', 0, 0), ('exit', 1)])
    # one manager on two servers, a second manager on one of them
    for vi, tail in enumerate(([('unreg', 0, 0), ('unreg', 0, 1)], [('unreg', 0, 1), ('reg', 0, 1), ('unreg_all', 0)],
                               [('unreg_all', 0)], [('exit_exc', 0)],
                               [('restart', 0), ('reg', 0, 1), ('exit', 0), ('reg', 0, 0), ('unreg', 0, 0)])):
        R.case(('two-servers', vi))
        pf, pd = PRE[FIL] + 'abc:f1', PRE[DST] + 'abc:d1'
        History('two-servers', ['abc', 'ab'], 2).run(
            [('reg', 0, 0), ('reg', 0, 1), ('reg', 1, 1), ('foreign_filter', 0, 'perm1'), ('foreign_filter', 1, 'perm1'),
             ('add_filter', 0, 0, True, 'f1'), ('add_filter', 0, 1, True, 'f1'), ('add_filter', 0, 1, True, 'f2'),
             ('add_dest', 0, 0, True, 'd1', 'http://host1:5000', None),
             ('add_dest', 0, 1, True, 'd1', 'http://host1:5000', None),
             ('add_dest', 1, 1, True, 'd1', 'http://host1:5000', None),
             ('add_sub', 0, 0, pf, None, True), ('add_sub', 0, 1, pf, None, True), ('add_sub', 0, 1, 'perm1', pd, True),
             ('add_sub', 1, 1, 'perm1', None, True)] + tail + [('exit', 1)])
    # manager id validation
    for bad, exc in (('a:b', ValueError), (':', ValueError), (None, ValueError), (5, TypeError), (b'abc', TypeError)):
        R.case(('bad-id', repr(bad)))
        try:
            WBEMSubscriptionManager(bad)
            R.violation('manager-id-accepted-' + ('with-colon' if isinstance(bad, str) else 'non-string'), id=repr(bad))
        except exc:
            pass
        except Exception as e:  # noqa
            R.violation('manager-id-check-raises-' + type(e).__name__, id=repr(bad))


# ---------------------------------------------------------------- family 5: seeded random histories

FIDS = ['f1', 'f2', '', 'a.c', 'x y', 'abc', 'F1', '.*', 'é']
DIDS = ['d1', 'd2', '', 'a.c', 'abc', '[d]']


def random_op(rnd, H, nmgr, nsrv):
    """The next operation of a random history (None: nothing applicable was drawn)."""
    allowed_f = lambda name, mid: owner_of(name, PRE[FIL]) in (None, mid)   # noqa
    allowed_d = lambda name, mid: owner_of(name, PRE[DST]) in (None, mid)   # noqa
    m = rnd.randrange(nmgr)
    mid = H.ids[m]
    s = rnd.randrange(nsrv)
    S = H.msrv[s]
    x = rnd.random()
    if s not in H.reg[m]:
        # mostly (re-)register; otherwise exercise the ValueError path (not add_sub: covered separately)
        if x < 0.75:
            op = ('reg', m, s)
        elif x < 0.8:
            op = ('add_filter', m, s, True, rnd.choice(FIDS))
        elif x < 0.85:
            op = ('rm_filter', m, s, rnd.choice(sorted(S.fil) or ['nonexistent']))
        elif x < 0.9:
            op = ('unreg', m, s)
        elif x < 0.95:
            op = ('foreign_filter', s, rnd.choice([f for f in FOREIGN_F if f not in S.fil] or ['zz%d' % len(S.fil)]))
        else:
            op = ('restart', m)
    elif x < 0.03:
        op = ('reg', m, s)
    elif x < 0.17:
        op = ('add_filter', m, s, True, rnd.choice(FIDS)) if rnd.random() < 0.7 else \
            ('add_filter', m, s, False, rnd.choice(FOREIGN_F))
    elif x < 0.31:
        url = rnd.choice(URL_OK) if rnd.random() < 0.85 else rnd.choice(list(URLS))
        pt = rnd.choice((None, None, 'permanent', 'transient', 'Transient')) if rnd.random() < 0.93 else 'bogus'
        op = ('add_dest', m, s, True, rnd.choice(DIDS), url, pt) if rnd.random() < 0.7 else \
            ('add_dest', m, s, False, rnd.choice(FOREIGN_D), url, pt)
    elif x < 0.53:
        fs = [f for f in sorted(S.fil) if allowed_f(f, mid)] or ['nonexistent']
        ds = [d for d in sorted(S.dst) if allowed_d(d, mid)] or ['nonexistent']
        fn = rnd.choice(fs) if rnd.random() < 0.93 else 'nonexistent'
        y = rnd.random()
        if y < 0.2:
            dns = None
        elif y < 0.7:
            dns = rnd.choice(ds) if rnd.random() < 0.93 else 'nonexistent'
        else:
            dns = tuple(rnd.choice(ds) for _ in range(rnd.randrange(0, 4)))
        op = ('add_sub', m, s, fn, dns, rnd.random() < 0.7)
    elif x < 0.61:
        fs = [f for f in sorted(S.fil) if allowed_f(f, mid)] or ['nonexistent']
        op = ('rm_filter', m, s, rnd.choice(fs) if rnd.random() < 0.9 else 'nonexistent')
    elif x < 0.69:
        ds = [d for d in sorted(S.dst) if allowed_d(d, mid)] or ['nonexistent']
        if rnd.random() < 0.6:
            op = ('rm_dest', m, s, rnd.choice(ds) if rnd.random() < 0.9 else 'nonexistent')
        else:
            op = ('rm_dest', m, s, tuple(rnd.sample(ds, rnd.randrange(0, min(3, len(ds)) + 1))))
    elif x < 0.79:
        ks = [k for k, o in sorted(S.sub.items(), key=lambda kv: kv[0]) if o is None or o == mid] or \
            [('nonexistent', 'nonexistent')]
        if rnd.random() < 0.6:
            op = ('rm_sub', m, s, rnd.choice(ks) if rnd.random() < 0.9 else ('nonexistent', 'nonexistent'))
        else:
            op = ('rm_sub', m, s, rnd.sample(ks, rnd.randrange(0, min(3, len(ks)) + 1)))
    elif x < 0.84:
        op = ('unreg', m, s)
    elif x < 0.86:
        op = ('unreg_all', m)
    elif x < 0.88:
        op = rnd.choice((('exit', m), ('exit_exc', m)))
    elif x < 0.93:
        op = ('restart', m)
    elif x < 0.96:
        op = ('foreign_filter', s, rnd.choice([f for f in FOREIGN_F if f not in S.fil] or ['zz%d' % len(S.fil)]))
    elif x < 0.98:
        op = ('foreign_dest', s, rnd.choice([d for d in FOREIGN_D if d not in S.dst] or ['zz%d' % len(S.dst)]),
              'http://foreign:1')
    else:
        fs = [f for f in sorted(S.fil) if owner_of(f, PRE[FIL]) is None]
        ds = [d for d in sorted(S.dst) if owner_of(d, PRE[DST]) is None]
        free = [(f, d) for f in fs for d in ds if (f, d) not in S.sub]
        if not free:
            return None
        op = ('foreign_sub', s) + rnd.choice(free)
    return op


def random_history(rnd, idx):
    nsrv = rnd.choice((1, 1, 2))
    nmgr = rnd.choice((1, 2, 2, 3))
    ids = rnd.sample(INERT_IDS, nmgr)
    H = History('random-history', ids, nsrv)
    n = rnd.randrange(10, 25)
    for _ in range(n):
        op = random_op(rnd, H, nmgr, nsrv)
        if op is None:
            continue
        if not H.step(op):
            break
    else:
        # final clean-up: every manager leaves; only non-owned instances may remain
        for m in range(nmgr):
            if not H.step(('exit', m)):
                break
    R.case(('rand', idx, len(H.trace), zlib.crc32(repr(H.trace).encode('utf-8'))))


# ---------------------------------------------------------------- family 6: failing server calls

INJ_MODE_EXC = {'cim': 'cim', 'conn': 'conn', 'lost': 'conn'}
UNREG_KINDS = ('unreg', 'unreg_all', 'exit', 'exit_exc')

KNOWN_GET = 'known:owned-instance-created-but-not-recorded-when-the-following-GetInstance-fails'
KNOWN_KEYERR = 'known:remove-server-failing-partway-leaves-get-owned-raising-KeyError'
KNOWN_ADDSRV = 'known:add-server-failing-during-discovery-leaves-server-registered-with-incomplete-owned-lists'
KNOWN_GONE = 'known:remove-server-cannot-complete-once-an-owned-instance-is-already-gone'
KNOWN_WHAT = {
    KNOWN_GET:
        "Manager 'abc': add_filter(sid, 'root/cimv2', query, filter_id='f1') (likewise add_destination and owned "
        "add_subscriptions) when CreateInstance succeeds and the GetInstance that follows it raises CIMError or "
        "ConnectionError: pywbemfilter:abc:f1 now exists in the server but is not in get_owned_filters(sid); the "
        "retry raises CIM_ERR_ALREADY_EXISTS and remove_server(sid) leaves the instance behind.",
    KNOWN_KEYERR:
        "Manager 'abc' owning filters f1, f2, destination d1 and subscription f1-d1: remove_server(sid) with the "
        "DeleteInstance of filter f2 failing (injected, or refused by the server because manager 'ab' has a "
        "subscription on pywbemfilter:abc:f2) leaves the server registered but get_owned_subscriptions(sid) raises "
        "KeyError from then on (after a failing destination delete get_owned_filters too), and so do owned "
        "add_subscriptions and remove_subscriptions.",
    KNOWN_ADDSRV:
        "New manager 'abc', add_server(server) on a server holding pywbemfilter:abc:f1, with any of the three "
        "discovery EnumerateInstances calls raising: the exception propagates but the server stays registered with "
        "empty or partial owned lists (get_owned_filters(url) == []), the retry raises ValueError('already known') "
        "and remove_server(url) deletes only what had been discovered.",
    KNOWN_GONE:
        "Manager 'abc' owning filters f1, f2: remove_server(sid) whose DeleteInstance of f2 was executed by the "
        "server but whose reply was lost; every retry of remove_server/remove_all_servers/__exit__ raises "
        "CIM_ERR_NOT_FOUND at the f2 entry, so f1 is never deleted, and no manager call can drop the entry "
        "(remove_filter/remove_destinations/remove_subscriptions delete in the server before touching the list).",
}


def clone_manager(mgr):
    """A manager object in the same state (its per-server tables copied one level deep; the instance objects in them
    are never modified by the manager). Every history started from a clone first compares the clone with the server."""
    new = copy.copy(mgr)
    for a, v in vars(mgr).items():
        if isinstance(v, dict):
            setattr(new, a, {k: (list(x) if isinstance(x, list) else x) for k, x in v.items()})
    return new


def really_registered(mgr, url):
    try:
        mgr.get_owned_filters(url)
    except ValueError:
        return False
    except Exception:  # noqa
        pass
    return True


def fault_relabel(vid, op, H):
    kind = op[0] if op else None
    if vid == 'registration-after-fault-reg-kept':
        return KNOWN_ADDSRV
    if vid == 'get-owned-raises-KeyError' and H.partial:
        return KNOWN_KEYERR
    if H.last_fired == 'GetInstance' and vid in ('owned-list-after-fault-add_filter-filter-missing',
                                                 'owned-list-after-fault-add_dest-destination-missing',
                                                 'owned-list-after-fault-add_sub-subscription-missing'):
        return KNOWN_GET
    if kind in UNREG_KINDS and vid == 'outcome-%s-expected-ok-got-CIMError:6' % kind and \
            any(key[0] == op[1] and any(f == 'DeleteInstance' for f, _ in v) for key, v in H.exempt.items()):
        return KNOWN_GONE
    return vid


FU = ['http://host1:5000', 'https://host1:5000', 'http://host1:5001', 'http://host1.dom.example:5000']


def fault_setup(ida, two):
    """A populated server: manager 0 owns 2 filters, 3 destinations, 3 subscriptions (one on a foreign filter) and has
    created a permanent filter and destination; manager 1 owns a filter, a destination and a subscription; foreign
    filter, destinations and subscription. With two: manager 0 also owns 1+1+2 instances on a second server."""
    fa, da = PRE[FIL] + ida + ':', PRE[DST] + ida + ':'
    ops = [('reg', 0, 0), ('reg', 1, 0), ('foreign_filter', 0, 'perm1'), ('foreign_dest', 0, 'permd1', 'http://f:1'),
           ('foreign_dest', 0, 'permd2', 'http://f:2'), ('foreign_sub', 0, 'perm1', 'permd2'),
           ('add_filter', 0, 0, True, 'f1'), ('add_filter', 0, 0, True, 'f2'), ('add_filter', 0, 0, False, 'perm2'),
           ('add_dest', 0, 0, True, 'd1', FU[0], None), ('add_dest', 0, 0, True, 'd2', FU[1], None),
           ('add_dest', 0, 0, True, 'd3', FU[2], None), ('add_dest', 0, 0, False, 'permd3', FU[2], None),
           ('add_filter', 1, 0, True, 'f1'), ('add_dest', 1, 0, True, 'd1', FU[0], None),
           ('add_sub', 0, 0, fa + 'f1', (da + 'd1', da + 'd2'), True), ('add_sub', 0, 0, 'perm1', da + 'd1', True),
           ('add_sub', 1, 0, 'perm1', None, True)]
    if two:
        ops += [('reg', 0, 1), ('foreign_filter', 1, 'perm1'), ('add_filter', 0, 1, True, 'f1'),
                ('add_dest', 0, 1, True, 'd1', FU[0], None), ('add_sub', 0, 1, fa + 'f1', None, True),
                ('add_sub', 0, 1, 'perm1', None, True)]
    return ops


def fault_targets(ida, idb):
    fa, da, db = PRE[FIL] + ida + ':', PRE[DST] + ida + ':', PRE[DST] + idb + ':'
    # (name, two servers, extra setup, the manager call under fault)
    return [
        ('add_server', False, [('restart', 0)], ('reg', 0, 0)),
        ('add_server-fresh-WBEMServer', False, [('restart', 0)], ('reg', 0, 0, 'fresh')),
        ('add_filter-owned', False, [], ('add_filter', 0, 0, True, 'f3')),
        ('add_filter-permanent', False, [], ('add_filter', 0, 0, False, 'perm3')),
        ('add_destination-owned', False, [], ('add_dest', 0, 0, True, 'd4', FU[3], None)),
        ('add_destination-permanent', False, [], ('add_dest', 0, 0, False, 'permd4', FU[3], 'permanent')),
        ('add_destination-reused', False, [], ('add_dest', 0, 0, True, 'd5', FU[0], None)),
        ('add_subscriptions-owned-all-destinations', False, [], ('add_sub', 0, 0, fa + 'f2', None, True)),
        ('add_subscriptions-owned-list-one-existing', False, [],
         ('add_sub', 0, 0, fa + 'f1', (da + 'd1', da + 'd3', 'permd1'), True)),
        ('add_subscriptions-owned-on-unowned-ends', False, [], ('add_sub', 0, 0, 'perm2', 'permd1', True)),
        ('add_subscriptions-permanent', False, [], ('add_sub', 0, 0, 'perm2', ('permd1', 'permd3'), False)),
        ('remove_subscriptions-one', False, [], ('rm_sub', 0, 0, (fa + 'f1', da + 'd1'))),
        ('remove_subscriptions-list', False, [],
         ('rm_sub', 0, 0, [(fa + 'f1', da + 'd2'), ('perm1', da + 'd1'), ('perm1', 'permd2')])),
        ('remove_filter-owned', False, [], ('rm_filter', 0, 0, fa + 'f2')),
        ('remove_filter-permanent', False, [], ('rm_filter', 0, 0, 'perm2')),
        ('remove_destinations-one', False, [], ('rm_dest', 0, 0, da + 'd3')),
        ('remove_destinations-list', False, [], ('rm_dest', 0, 0, (da + 'd3', 'permd3'))),
        ('remove_server', False, [], ('unreg', 0, 0)),
        ('remove_server-other-manager', False, [], ('unreg', 1, 0)),
        ('remove_all_servers', True, [], ('unreg_all', 0)),
        ('exit', False, [], ('exit', 0)),
        ('exit-with-exception', True, [], ('exit_exc', 0)),
        ('add_subscriptions-other-manager', False, [], ('add_sub', 1, 0, 'perm2', (db + 'd1', 'permd1'), True)),
    ]


CHECKPOINTS = {}


def fault_history(ids, two, setup):
    """A history that has run the fault-free setup (built once per distinct setup, then cloned)."""
    key = repr((ids, two, setup))
    if key not in CHECKPOINTS:
        H = History('failing-server-call', ids, 2 if two else 1, relabel=fault_relabel)
        H.fixed_server_objects = True
        ok = all(H.step(op, quiet=True) for op in setup)
        if ok:
            H.check_state('setup', ('setup',), with_get_all=False)
        CHECKPOINTS.clear()      # one at a time is enough (cases are grouped by setup)
        CHECKPOINTS[key] = H.checkpoint() if ok and not H.vids else None
    if CHECKPOINTS[key] is None:
        return None
    H = History.restore(CHECKPOINTS[key], 'failing-server-call', relabel=fault_relabel)
    H.fixed_server_objects = True
    H.resync_on_mismatch = True
    H.check_state('setup', ('setup',), with_get_all=False)    # the clone agrees with the server and the model
    return None if H.vids else H


def recover(H, op, variant, first_ok, short=False):
    """After the failed call: 'retry' = the same call again on the same manager object, then remove_all_servers, then
    a new manager with the same id finds nothing; 'restart' = a new manager with the same id rediscovers exactly
    what is left, the call again, leaving the context manager, and again a new manager that finds nothing.
    A step that shows only known defects sends the rest of the history through 'restart' (the lists of the old manager
    object are no longer to be trusted); KNOWN_KEYERR alone does not (state and model still agree)."""
    m = op[1]
    regs = sorted(H.reg[m] | ({op[2]} if op[0] == 'reg' else set()))
    regops = [('reg', m, s) for s in regs]
    restart = [('restart', m)] + regops + [op[:3] if op[0] == 'reg' else op, ('exit', m)] + \
        ([] if short else [('restart', m)] + regops + [('unreg_all', m)])
    retry = [op, ('unreg_all', m), ('restart', m)] + regops + [('unreg_all', m)]
    fallback = [('restart', m)] + regops + [('exit', m), ('restart', m)] + regops + [('unreg_all', m)]
    queue = list(retry if variant == 'retry' and first_ok else restart)
    fell_back = queue is restart or not first_ok
    while queue:
        o = queue.pop(0)
        n0 = len(H.vids)
        if H.step(o, final=not queue):
            continue
        new = H.vids[n0:]
        if not all(v.startswith('known:') for v in new):
            return
        if all(v == KNOWN_KEYERR for v in new):
            continue
        if fell_back:
            return
        fell_back = True
        queue = list(fallback)


def fault_minimal():
    """Small histories first, so that what gets reported for a known defect is its shortest form."""
    f1, f2, d1 = ('add_filter', 0, 0, True, 'f1'), ('add_filter', 0, 0, True, 'f2'), \
        ('add_dest', 0, 0, True, 'd1', FU[0], None)
    s1 = ('add_sub', 0, 0, PRE[FIL] + 'abc:f1', PRE[DST] + 'abc:d1', True)
    for setup, op, k, mode, variant in (
            ([('reg', 0, 0)], f1, 3, 'cim', 'retry'),
            ([('reg', 0, 0)], d1, 3, 'conn', 'retry'),
            ([('reg', 0, 0), f1, d1], s1, 2, 'cim', 'retry'),
            ([('reg', 0, 0), f1, f2, d1, s1], ('unreg', 0, 0), 2, 'cim', 'retry'),
            ([('reg', 0, 0), f1, f2, d1, s1], ('unreg', 0, 0), 4, 'conn', 'retry'),
            ([('reg', 0, 0), f1, ('restart', 0)], ('reg', 0, 0), 2, 'cim', 'retry'),
            ([('reg', 0, 0), f1, d1, s1, ('restart', 0)], ('reg', 0, 0), 3, 'conn', 'retry'),
            ([('reg', 0, 0), f1, f2], ('unreg', 0, 0), 1, 'lost', 'retry'),
            ([('reg', 0, 0), f1], f2, 2, 'lost', 'restart')):
        R.case(('fault-minimal', repr(setup), op, k, mode))
        H = fault_history(['abc'], False, setup)
        if H is not None:
            n0 = len(H.vids)
            ok = H.step(op, fault=(k, mode))
            new = H.vids[n0:]
            if ok or all(v.startswith('known:') for v in new):
                recover(H, op, variant, ok or all(v == KNOWN_KEYERR for v in new))


def fault_sweep(quick, rnd):
    fault_minimal()
    idsets = [('abc', 'ab')] if quick else [('abc', 'ab'), ('', 'a'), ('x/y#z', 'abc ')]
    for ii, (ida, idb) in enumerate(idsets):
        for ti, (name, two, extra, op) in enumerate(fault_targets(ida, idb)):
            if quick and name in ('exit-with-exception', 'add_subscriptions-other-manager', 'remove_destinations-one'):
                continue
            setup = fault_setup(ida, two) + extra
            # dry run: how many server calls does this manager call make, and which
            R.case(('fault-dry', ida, name))
            H = fault_history([ida, idb], two, setup)
            if H is None:
                continue
            INJ.arm(10 ** 9, 'cim')
            try:
                H.real(op)
            except Exception as e:  # noqa
                H.report('dry-run-%s-raises-%s' % (op[0], type(e).__name__), observed=repr(e)[:200])
                continue
            finally:
                calls = list(INJ.log)
                INJ.disarm()
            for k, call in enumerate(calls, 1):
                modes = ['cim', 'conn'] + (['lost'] if call in ('CreateInstance', 'DeleteInstance') else [])
                for mi, mode in enumerate(modes):
                    for vi, variant in enumerate(('retry', 'restart')):
                        if quick and mode != 'lost' and (mi, vi) != ((k + ti) % 2, (k + ti) // 2 % 2):
                            continue        # quick: each position once, with CIMError or ConnectionError
                        if quick and mode == 'lost' and vi != (k + ti) % 2 and call == 'DeleteInstance':
                            continue
                        if mode == 'lost' and call == 'CreateInstance' and variant == 'retry':
                            continue        # the orphan is unknown to the old manager object: restart is the recovery
                        R.case(('fault', ida, name, k, call, mode, variant))
                        H = fault_history([ida, idb], two, setup)
                        if H is None:
                            break
                        n0 = len(H.vids)
                        ok = H.step(op, fault=(k, mode))
                        new = H.vids[n0:]
                        if not ok and not all(v.startswith('known:') for v in new):
                            continue
                        recover(H, op, variant, ok or all(v == KNOWN_KEYERR for v in new), short=quick)
    # the failure that needs no injection: manager 0 cannot delete an owned filter/destination that a subscription
    # of manager 1 references; manager 1 then removes its subscription and manager 0 tries again
    for ida, idb in idsets:
        fa, da, fb, db = PRE[FIL] + ida + ':', PRE[DST] + ida + ':', PRE[FIL] + idb + ':', PRE[DST] + idb + ':'
        for bname, bsub in (('last-filter', (fa + 'f2', db + 'd1')), ('first-filter', (fa + 'f1', db + 'd1')),
                            ('destination', (fb + 'f1', da + 'd1')), ('filter-and-destination', (fa + 'f1', da + 'd2')),
                            ('foreign-filter-own-destination', ('perm1', da + 'd2'))):
            for leave in ('unreg', 'unreg_all', 'exit') if not quick else ('unreg', 'exit'):
                R.case(('blocked', ida, bname, leave))
                H = fault_history([ida, idb], False, [
                    ('reg', 0, 0), ('reg', 1, 0), ('foreign_filter', 0, 'perm1'),
                    ('add_filter', 0, 0, True, 'f1'), ('add_filter', 0, 0, True, 'f2'),
                    ('add_dest', 0, 0, True, 'd1', FU[0], None), ('add_dest', 0, 0, True, 'd2', FU[1], None),
                    ('add_sub', 0, 0, fa + 'f1', da + 'd1', True), ('add_filter', 1, 0, True, 'f1'),
                    ('add_dest', 1, 0, True, 'd1', FU[0], None), ('add_sub', 1, 0) + bsub + (True,)])
                if H is None:
                    continue
                lop = (leave, 0, 0) if leave == 'unreg' else (leave, 0)
                ops = [(lop, ('natural',)), (('add_filter', 1, 0, True, 'f2'), None), (('rm_sub', 1, 0, bsub), None),
                       (lop, None), (('restart', 0), None), (('reg', 0, 0), None), (('unreg_all', 0), None),
                       (('exit', 1), None)]
                for o, flt in ops:
                    n0 = len(H.vids)
                    if not H.step(o, fault=flt) and not all(v == KNOWN_KEYERR for v in H.vids[n0:]):
                        break


def random_fault_history(rnd, idx):
    """A random history in which one manager call (drawn at random, after 4..12 fault-free ones) meets a failing
    server call at a random position, followed by the recovery and a few more random operations."""
    nsrv = rnd.choice((1, 1, 2))
    nmgr = rnd.choice((1, 2, 2, 3))
    ids = rnd.sample(INERT_IDS, nmgr)
    H = History('random-history-with-failing-call', ids, nsrv, relabel=fault_relabel)
    H.fixed_server_objects = True
    H.resync_on_mismatch = True
    n1 = rnd.randrange(4, 13)
    fired = False
    done = 0
    for _ in range(60):
        op = random_op(rnd, H, nmgr, nsrv)
        if op is None or (op[0] == 'add_dest' and URLS[op[5]] == 'either'):
            continue
        done += 1
        if fired or done <= n1 or op[0].startswith('foreign') or op[0] == 'restart' or \
                (op[0] == 'reg' and rnd.random() < 0.75):      # registration is the most frequent call: mostly spared
            if not H.step(op):
                break
            if fired and done > n1 + 6:
                break
            continue
        k, mode = rnd.randrange(1, 7), rnd.choice(('cim', 'conn', 'lost'))
        n0 = len(H.vids)
        ok = H.step(op, fault=(k, mode))
        if H.last_fired is None:
            if not ok:
                break
            continue            # this call made fewer than k server calls: try the next one
        fired = True
        new = H.vids[n0:]
        if not ok and not all(v.startswith('known:') for v in new):
            break
        lost_create = any(f == 'CreateInstance' for v in H.exempt.values() for f, _ in v)
        recover(H, op, 'restart' if lost_create else rnd.choice(('retry', 'restart')),
                ok or all(v == KNOWN_KEYERR for v in new))
        if len(H.vids) > n0:
            break
        n1 = done
    R.case(('rand-fault', idx, len(H.trace), zlib.crc32(repr(H.trace).encode('utf-8'))))


# ---------------------------------------------------------------- main

def main():
    rnd = random.Random(R.seed)
    quick = R.tier == 'quick'
    dedicated(quick)
    # id pairs: all ordered pairs (thorough); quick: 7 inert ids pairwise, every active id against one partner
    # both ways, and a seeded sample of the rest
    allids = INERT_IDS + ACTIVE_IDS
    if quick:
        pairs = [(a, b) for a in INERT_IDS[:7] for b in INERT_IDS[:7] if a != b]
        for act, other in zip(ACTIVE_IDS, itertools.cycle(('abc', 'a', 'ab'))):
            pairs += [(other, act), (act, other)]
        pairs += rnd.sample([(a, b) for a in allids for b in allids if a != b and (a, b) not in pairs], 6)
    else:
        pairs = [(a, b) for a in allids for b in allids if a != b]
    for a, b in pairs:
        pair_case(a, b)
    # URL forms x persistence types x owned/permanent (quick: each URL, each persistence type, not the product)
    for url in URLS:
        for ptype in PTYPES:
            for owned in (True, False):
                if quick and not ((ptype is None and owned) or url == 'HTTP://host1:5000'):
                    continue
                url_case(url, ptype, owned, quick)
    # short sequences
    for n in (1, 2) if quick else (1, 2, 3):
        for syms in itertools.product(SYMS, repeat=n):
            seq_case('abc', syms)
    for n, cnt in ((3, 80), (5, 20)) if quick else ((4, 300), (6, 150)):
        for _ in range(cnt):
            seq_case(rnd.choice(('abc', '', 'x/y#z')), tuple(rnd.choice(SYMS) for _ in range(n)))
    # random histories
    for i in range(60 if quick else 600):
        random_history(rnd, i)
    # failing server calls at every position of every manager call; the same inside random histories
    rnd2 = random.Random(R.seed + 1)
    fault_sweep(quick, rnd2)
    for i in range(25 if quick else 500):
        random_fault_history(rnd2, i)
    for s in SERVERS:
        s.reset()
    R.finish()


main()
