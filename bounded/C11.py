"""Bounded stand-in for C11: a failed mock-repository operation changes nothing.

Every case starts from a copy of one of a few reachable repository states, performs ONE public
repository-changing call on a fresh FakedWBEMConnection that is designed to be rejected, and compares an
independent dump of the complete repository (namespaces, classes, instances, qualifier types; exact reprs) taken
before and after.  The oracle is the frame "raised => dump unchanged"; a small model of the batch elements
(which key each valid element adds/changes) is used only to recognise the already known "no rollback" defects
narrowly, so that any other change after a raise gets its own, non-'known:' id.
"""
import os
import sys

# The set iteration order inside InstanceWriteProvider.find_multins_association_ref_namespaces depends on the
# string hash seed; pin it so that a given seed always explores exactly the same behaviour.
if os.environ.get('PYTHONHASHSEED') != '0':
    os.environ['PYTHONHASHSEED'] = '0'
    os.execv(sys.executable, [sys.executable] + sys.argv)

import copy
import random
import shutil
import tempfile
import time
import warnings

from bounded.common import Run

warnings.simplefilter('ignore')

from pywbem import (CIMClass, CIMInstance, CIMInstanceName, CIMProperty, CIMMethod, CIMParameter,  # noqa: E402
                    CIMQualifier, CIMQualifierDeclaration, Uint32)
from pywbem_mock import FakedWBEMConnection, config  # noqa: E402
from pywbem_mock._namespaceprovider import CIMNamespaceProvider  # noqa: E402

R = Run('every public repository mutator (compile_mof_string/file, compile_schema_classes, add_cimobjects, '
        'Create/Modify/DeleteClass, Set/DeleteQualifier, Create/Modify/DeleteInstance incl. multi-namespace '
        'associations and the CIM_Namespace provider, add/remove_namespace) x every rejection reason '
        '(~150 reasons) x 5 repository states (2-ns class tree, 3-ns cross-namespace associations, orphaned '
        'shadow instances, minimal/empty namespaces, interop+namespace provider) x target namespaces; batches: '
        'invalid element at every position k=0..4 of 2 valid chains, with/without a valid suffix '
        '(all single operations and add_cimobjects batches exhaustive (quick: valid-suffix variants only for one '
        'state/namespace); compile_mof_string batches exhaustive in '
        'thorough, fixed core + seeded sample in quick; compile_mof_file x 3 file layouts: core + seeded sample)')

DEBUG = bool(os.environ.get('C11_DEBUG'))
QUICK = R.tier != 'thorough'
RND = random.Random(R.seed)

# ---------------------------------------------------------------------------------------------------------
# MOF of the repository states
# ---------------------------------------------------------------------------------------------------------
QUALS = '''
Qualifier Association : boolean = false, Scope(association), Flavor(DisableOverride, ToSubclass);
Qualifier Description : string = null, Scope(any), Flavor(EnableOverride, ToSubclass, Translatable);
Qualifier Key : boolean = false, Scope(property, reference), Flavor(DisableOverride, ToSubclass);
Qualifier Override : string = null, Scope(property, reference, method), Flavor(EnableOverride, Restricted);
Qualifier Abstract : boolean = false, Scope(class, association, indication), Flavor(EnableOverride, Restricted);
Qualifier EmbeddedInstance : string = null, Scope(property, method, parameter), Flavor(EnableOverride, ToSubclass);
Qualifier In : boolean = true, Scope(parameter), Flavor(DisableOverride, ToSubclass);
Qualifier Out : boolean = false, Scope(parameter), Flavor(DisableOverride, ToSubclass);
Qualifier Unused : uint32 = null, Scope(any), Flavor(EnableOverride, ToSubclass);
'''
CLASSES = '''
class TST_Base { [Key] string Id; uint32 Num; string Tags[];
    [Description("m")] uint32 Meth([In] string p1, [In(false), Out] uint32 p2); };
class TST_Sub : TST_Base { string Extra; };
class TST_SubSub : TST_Sub { string More; };
class TST_Person { [Key] string Name; [EmbeddedInstance("TST_Base")] string Emb; };
[Association] class TST_Link { [Key] TST_Person REF A; [Key] TST_Person REF B; string Note; };
[Association] class TST_Loose { [Key] string Id; TST_Person REF X; TST_Person REF Y; };
class TST_Leaf { [Key] string Id; string V; };
class TST_LeafSub : TST_Leaf { string W; };
class TST_Solo { [Key] string Id; string V; };
'''
INSTANCES = '''
instance of TST_Base { Id = "b1"; Num = 1; };
instance of TST_Sub { Id = "s1"; Num = 2; Extra = "e"; };
instance of TST_SubSub { Id = "ss1"; More = "m"; };
instance of TST_Person { Name = "p1"; };
instance of TST_Person { Name = "p2"; };
instance of TST_Person { Name = "p3"; };
'''
NSCLS = '''
class CIM_Namespace { [Key] string SystemCreationClassName; [Key] string SystemName;
    [Key] string ObjectManagerCreationClassName; [Key] string ObjectManagerName;
    [Key] string CreationClassName; [Key] string Name; string Caption; };
class CIM_ObjectManager { [Key] string SystemCreationClassName; [Key] string SystemName;
    [Key] string CreationClassName; [Key] string Name; string ElementName; string Description; };
instance of CIM_ObjectManager { SystemCreationClassName = "%s"; SystemName = "%s"; CreationClassName = "%s";
    Name = "%s"; ElementName = "Pywbem"; Description = "Pywbem mock"; };
''' % (config.SYSTEMCREATIONCLASSNAME, config.SYSTEMNAME, config.OBJECTMANAGERCREATIONCLASSNAME,
       config.OBJECTMANAGERNAME)

NS0, NS1, NS2 = 'root/cimv2', 'root/b', 'root/c'
INTEROP = 'interop'


def person(ns, name):
    return CIMInstanceName('TST_Person', {'Name': name}, namespace=ns)


def link_path(ns, a, b):
    return CIMInstanceName('TST_Link', {'A': a, 'B': b}, namespace=ns)


def link_inst(a, b, note=None, ns=None):
    props = {'A': a, 'B': b}
    if note is not None:
        props['Note'] = note
    inst = CIMInstance('TST_Link', properties=props)
    if ns is not None:
        inst.path = link_path(ns, a, b)
    return inst


def loose_inst(ident, x, y, ns=None):
    inst = CIMInstance('TST_Loose', properties={'Id': ident, 'X': x, 'Y': y})
    if ns is not None:
        inst.path = CIMInstanceName('TST_Loose', {'Id': ident}, namespace=ns)
    return inst


def nsinst_path(name):
    return CIMInstanceName('CIM_Namespace', {
        'SystemCreationClassName': config.SYSTEMCREATIONCLASSNAME, 'SystemName': config.SYSTEMNAME,
        'ObjectManagerCreationClassName': config.OBJECTMANAGERCREATIONCLASSNAME,
        'ObjectManagerName': config.OBJECTMANAGERNAME, 'CreationClassName': 'CIM_Namespace', 'Name': name},
        namespace=INTEROP)


def nsinst(name, drop=(), **override):
    props = dict(nsinst_path(name).keybindings)
    props.update(override)
    for d in drop:
        del props[d]
    return CIMInstance('CIM_Namespace', properties=props)


# ---------------------------------------------------------------------------------------------------------
# Independent dump of the repository (the observable of the property)
# ---------------------------------------------------------------------------------------------------------
def ikey(path):
    """Case-insensitive identity of an instance path inside its store."""
    def kv(v):
        if isinstance(v, CIMInstanceName):
            return ('ref', (v.namespace or '').lower(), ikey(v))
        return repr(v)
    return (path.classname.lower(), tuple(sorted((k.lower(), kv(v)) for k, v in path.keybindings.items())))


_ATTRS = {
    'CIMClass': ('classname', 'superclass', 'properties', 'methods', 'qualifiers', 'path'),
    'CIMInstance': ('classname', 'properties', 'qualifiers', 'path'),
    'CIMInstanceName': ('classname', 'keybindings', 'namespace', 'host'),
    'CIMClassName': ('classname', 'namespace', 'host'),
    'CIMProperty': ('name', 'value', 'type', 'reference_class', 'embedded_object', 'is_array', 'array_size',
                    'class_origin', 'propagated', 'qualifiers'),
    'CIMMethod': ('name', 'return_type', 'class_origin', 'propagated', 'parameters', 'qualifiers'),
    'CIMParameter': ('name', 'type', 'reference_class', 'is_array', 'array_size', 'qualifiers', 'value',
                     'embedded_object'),
    'CIMQualifier': ('name', 'value', 'type', 'propagated', 'overridable', 'tosubclass', 'toinstance',
                     'translatable'),
    'CIMQualifierDeclaration': ('name', 'type', 'value', 'is_array', 'array_size', 'scopes', 'overridable',
                                'tosubclass', 'toinstance', 'translatable'),
}
_PLAIN = (str, bool, type(None))


def ser(o):
    """Exact structural image of a CIM object (names in their stored lexical case, typed values, ordered)."""
    t = type(o)
    if t in _PLAIN:
        return o
    tn = t.__name__
    attrs = _ATTRS.get(tn)
    if attrs is not None:
        return (tn,) + tuple(ser(getattr(o, a)) for a in attrs)
    if isinstance(o, (list, tuple)):
        return (tn,) + tuple(ser(x) for x in o)
    if hasattr(o, 'items'):
        return (tn,) + tuple((k, ser(v)) for k, v in o.items())
    return (tn, repr(o))


def dump(conn):
    repo = conn.cimrepository
    out = {}
    for ns in list(repo.namespaces):
        nsl = ns.lower()
        out[('NS', nsl)] = ns
        cs, ins, qs = repo.get_class_store(ns), repo.get_instance_store(ns), repo.get_qualifier_store(ns)
        for name, obj in zip(list(cs.iter_names()), list(cs.iter_values(copy=False))):
            out[(nsl, 'C', name.lower())] = (name, ser(obj))
        for name, obj in zip(list(ins.iter_names()), list(ins.iter_values(copy=False))):
            out[(nsl, 'I', ikey(name))] = (ser(name), ser(obj))
        for name, obj in zip(list(qs.iter_names()), list(qs.iter_values(copy=False))):
            out[(nsl, 'Q', name.lower())] = (name, ser(obj))
    return out


def diff(a, b):
    added = {k for k in b if k not in a}
    removed = {k for k in a if k not in b}
    changed = {k for k in a if k in b and a[k] != b[k]}
    return added, removed, changed


# ---------------------------------------------------------------------------------------------------------
# Repository states, built once through the public API; each case runs on a fresh connection that loads a
# working copy (the working copy is replaced by a new deep copy of the pristine one as soon as it changed).
# ---------------------------------------------------------------------------------------------------------
class State:
    def __init__(self, name, builder, nsprovider=False):
        self.name = name
        self.nsprovider = nsprovider
        conn = FakedWBEMConnection()
        builder(conn)
        self.pristine = conn.cimrepository
        self.pristine_dump = dump(conn)
        self.working = None
        self.before = None

    def fresh(self):
        if self.working is None:
            self.working = copy.deepcopy(self.pristine)
            self.before = None
        conn = FakedWBEMConnection()
        conn.cimrepository.load(self.working)
        if self.nsprovider:
            conn.register_provider(CIMNamespaceProvider(conn.cimrepository), namespaces=INTEROP)
            self.before = None  # registration may touch the repository: take the dump afterwards
        if self.before is None:
            # a fresh deep copy of the pristine repository has the pristine dump (checked for the provider state,
            # where registering the provider could touch the repository)
            self.before = dump(conn) if self.nsprovider else self.pristine_dump
        return conn

    def reset(self):
        self.working = None
        self.before = None


def tree(conn, nss):
    for ns in nss:
        if ns not in conn.namespaces:
            conn.add_namespace(ns)
        conn.compile_mof_string(QUALS + CLASSES + INSTANCES, namespace=ns)


def build_t2(conn):
    tree(conn, [NS0, NS1])
    conn.CreateInstance(link_inst(person(NS0, 'p1'), person(NS0, 'p2'), 'same-ns'), namespace=NS0)
    conn.CreateInstance(loose_inst('l1', person(NS0, 'p1'), person(NS0, 'p2')), namespace=NS0)
    conn.CreateInstance(loose_inst('l1', person(NS1, 'p1'), person(NS1, 'p2')), namespace=NS1)


def build_m3(conn):
    tree(conn, [NS0, NS1, NS2])
    conn.DeleteClass('TST_Loose', namespace=NS2)            # class of a multi-ns association missing in NS2
    conn.CreateInstance(link_inst(person(NS0, 'p1'), person(NS1, 'p1'), 'two'), namespace=NS0)
    conn.CreateInstance(link_inst(person(NS1, 'p2'), person(NS2, 'p2'), 'three'), namespace=NS0)
    conn.CreateInstance(loose_inst('l2', person(NS0, 'p1'), person(NS1, 'p1')), namespace=NS0)
    conn.CreateInstance(loose_inst('l1', person(NS0, 'p1'), person(NS0, 'p2')), namespace=NS0)


def build_orph(conn):
    """Association instances put directly into single namespaces (add_cimobjects creates no shadows)."""
    tree(conn, [NS0, NS1, NS2])
    # good two-namespace link first, then orphans
    conn.CreateInstance(link_inst(person(NS0, 'p3'), person(NS1, 'p3'), 'good'), namespace=NS0)
    a0, b1 = person(NS0, 'p1'), person(NS1, 'p1')
    conn.add_cimobjects(link_inst(a0, b1, 'orphan-in-0', ns=NS0), namespace=NS0)     # no shadow in NS1
    # 3-namespace link held in NS0, shadow present in exactly one of NS1/NS2 (two variants by person name)
    for nm, present in (('p1', NS1), ('p2', NS2)):
        b, c = person(NS1, nm), person(NS2, nm)
        conn.add_cimobjects(link_inst(b, c, 'half', ns=NS0), namespace=NS0)
        conn.add_cimobjects(link_inst(b, c, 'half', ns=present), namespace=present)
    # instance that exists only in the *other* namespace
    conn.add_cimobjects(link_inst(person(NS0, 'p2'), person(NS1, 'p2'), 'only-in-1', ns=NS1), namespace=NS1)


def build_min(conn):
    conn.compile_mof_string(QUALS, namespace=NS0)
    conn.add_namespace('root/empty')
    conn.add_namespace('root/qonly')
    conn.compile_mof_string('Qualifier Key : boolean = false, Scope(property, reference), '
                            'Flavor(DisableOverride, ToSubclass);', namespace='root/qonly')
    conn.add_namespace('root/ionly')
    conn.add_cimobjects(CIMInstance('TST_Ghost', properties={'Id': 'g'},
                                    path=CIMInstanceName('TST_Ghost', {'Id': 'g'})), namespace='root/ionly')
    conn.add_namespace('root/conly')
    conn.add_cimobjects(CIMClass('TST_Bare'), namespace='root/conly')


def build_int(conn):
    """root/cimv2 (empty, created first), interop with CIM_Namespace provider, root/b tree, root/gone removed
    behind the provider's back (stale CIM_Namespace instance)."""
    conn.add_namespace(INTEROP)
    conn.compile_mof_string(QUALS + NSCLS, namespace=INTEROP)
    conn.install_namespace_provider(INTEROP)
    conn.add_namespace(NS1)
    conn.compile_mof_string(QUALS + CLASSES + INSTANCES, namespace=NS1)
    conn.add_namespace('root/gone')
    conn.remove_namespace('root/gone')
    conn.add_namespace('root/e1')


STATES = {}


def state(name):
    if name not in STATES:
        b, prov = {'T2': (build_t2, False), 'M3': (build_m3, False), 'ORPH': (build_orph, False),
                   'MIN': (build_min, False), 'INT': (build_int, True)}[name]
        STATES[name] = State(name, b, prov)
    return STATES[name]


# ---------------------------------------------------------------------------------------------------------
# Case runner
# ---------------------------------------------------------------------------------------------------------
NOT_RAISED = []
TMP = {'dir': None}


def short(x, n=300):
    s = x if isinstance(x, str) else repr(x)
    return s if len(s) <= n else s[:n] + '...'


def run_case(sname, op, reason, variant, call, replay, effects=None, known=None, subset=False):
    """effects: ordered list of ('+'|'-'|'~', key) that the known defect `known` is allowed to leave behind
    (any non-empty leading part of it; with subset=True any non-empty subset of it)."""
    R.case((sname, op, reason, variant))
    st = state(sname)
    conn = st.fresh()
    before = st.before
    try:
        call(conn)
        exc = None
    except Exception as e:  # noqa: every exception type counts as "the call raised"
        exc = e
    after = dump(conn)
    if after == before:
        if exc is None:
            NOT_RAISED.append((sname, op, reason, variant, 'no-raise-no-change'))
        return
    st.reset()
    if exc is None:
        NOT_RAISED.append((sname, op, reason, variant, 'succeeded'))
        return
    added, removed, changed = diff(before, after)
    observed = {('+', k) for k in added} | {('-', k) for k in removed} | {('~', k) for k in changed}
    vid = None
    if known and effects:
        if subset:
            ok = observed <= set(effects)
        else:
            ok = any(observed == set(effects[:j]) for j in range(1, len(effects) + 1))
        if ok:
            vid = known
    if vid is None:
        vid = '%s-raised-but-repository-changed:%s' % (op, reason)
    if callable(replay):
        replay = replay()
    R.violation(vid, state=sname, operation=op, reason=reason, variant=short(variant), replay=short(replay, 2500),
                raised=short(('%s: %s' % (type(exc).__name__, exc)).replace(TMP['dir'] or '\0', '<tmp>'), 300),
                added=sorted(short(k, 250) for k in added), removed=sorted(short(k, 250) for k in removed),
                changed=sorted(short(k, 250) for k in changed))


# ---------------------------------------------------------------------------------------------------------
# Batch elements (valid) and invalid elements
# ---------------------------------------------------------------------------------------------------------
def key_prop(name='Id'):
    return CIMProperty(name, None, type='string', qualifiers={'Key': CIMQualifier('Key', True)})


class El:
    def __init__(self, eid, mof, obj, effect):
        self.id, self.mof, self.obj, self.effect = eid, mof, obj, effect   # obj/effect: callables of ns


def valid_elements():
    e = {}
    e['qual'] = El('qual', 'Qualifier NewQ1 : boolean = false, Scope(any), Flavor(EnableOverride, ToSubclass);',
                   lambda ns: CIMQualifierDeclaration('NewQ1', 'boolean', value=False, scopes={'ANY': True}),
                   lambda ns: ('+', (ns, 'Q', 'newq1')))
    e['clsA'] = El('clsA', 'class NEW_A { [Key] string Id; uint32 N; };',
                   lambda ns: CIMClass('NEW_A', properties={'Id': key_prop(),
                                                            'N': CIMProperty('N', None, type='uint32')}),
                   lambda ns: ('+', (ns, 'C', 'new_a')))
    e['clsB'] = El('clsB', 'class NEW_B : NEW_A { string X; };',
                   lambda ns: CIMClass('NEW_B', superclass='NEW_A',
                                       properties={'X': CIMProperty('X', None, type='string')}),
                   lambda ns: ('+', (ns, 'C', 'new_b')))
    e['instA'] = El('instA', 'instance of NEW_A { Id = "a1"; N = 1; };',
                    lambda ns: CIMInstance('NEW_A', properties={'Id': 'a1', 'N': Uint32(1)},
                                           path=CIMInstanceName('NEW_A', {'Id': 'a1'})),
                    lambda ns: ('+', (ns, 'I', ikey(CIMInstanceName('NEW_A', {'Id': 'a1'})))))
    e['clsC'] = El('clsC', 'class NEW_C : TST_Base { string Y; };',
                   lambda ns: CIMClass('NEW_C', superclass='TST_Base',
                                       properties={'Y': CIMProperty('Y', None, type='string')}),
                   lambda ns: ('+', (ns, 'C', 'new_c')))
    e['instP'] = El('instP', 'instance of TST_Person { Name = "np1"; };',
                    lambda ns: CIMInstance('TST_Person', properties={'Name': 'np1'},
                                           path=CIMInstanceName('TST_Person', {'Name': 'np1'})),
                    lambda ns: ('+', (ns, 'I', ikey(person(ns, 'np1')))))
    e['instL'] = El('instL', None,
                    lambda ns: link_inst(person(ns, 'p3'), person(ns, 'p1'), 'batch', ns=ns),
                    lambda ns: ('+', (ns, 'I', ikey(link_path(ns, person(ns, 'p3'), person(ns, 'p1'))))))
    e['instL'].mofns = lambda ns: ('instance of TST_Link { A = "%s:TST_Person.Name=\\"p3\\""; '
                                   'B = "%s:TST_Person.Name=\\"p1\\""; Note = "batch"; };' % (ns, ns))
    e['modB'] = El('modB', 'instance of TST_Base { Id = "b1"; Num = 77; };', None,   # MOF only: exists -> modified
                   lambda ns: ('~', (ns, 'I', ikey(CIMInstanceName('TST_Base', {'Id': 'b1'})))))
    return e


VALID = valid_elements()
CHAIN_A = ['clsA', 'instA', 'clsB', 'qual']
CHAIN_B = ['qual', 'instP', 'clsC', 'instL']
CHAIN_BM = ['modB', 'instP', 'clsC', 'instL']     # MOF only
CHAIN_MIN = ['qual', 'clsA', 'instA', 'clsB']     # usable in the minimal state (no TST_ classes)


def mof_of(el, ns):
    return el.mofns(ns) if el.mof is None else el.mof


# invalid elements for add_cimobjects: reason -> callable(ns, prefix_ids) -> object or None (not applicable)
def bad_objects():
    b = {}
    b['class-exists'] = lambda ns, p: CIMClass('TST_Person')
    b['class-exists-other-case'] = lambda ns, p: CIMClass('tst_PERSON')
    b['class-repeated-in-batch'] = lambda ns, p: VALID['clsA'].obj(ns) if 'clsA' in p else None
    b['class-superclass-missing'] = lambda ns, p: CIMClass('NEW_X', superclass='Nope')
    b['class-undeclared-qualifier'] = lambda ns, p: CIMClass(
        'NEW_X', qualifiers={'Bogus': CIMQualifier('Bogus', True)})
    b['class-qualifier-wrong-type'] = lambda ns, p: CIMClass(
        'NEW_X', qualifiers={'Description': CIMQualifier('Description', Uint32(3))})
    b['class-qualifier-bad-scope'] = lambda ns, p: CIMClass('NEW_X', qualifiers={'Key': CIMQualifier('Key', True)})
    b['class-duplicate-property-no-override'] = lambda ns, p: CIMClass(
        'NEW_X', superclass='TST_Base', properties={'Num': CIMProperty('Num', None, type='uint32')})
    b['class-reference-in-non-association'] = lambda ns, p: CIMClass(
        'NEW_X', properties={'R': CIMProperty('R', None, type='reference', reference_class='TST_Person')})
    b['instance-without-path'] = lambda ns, p: CIMInstance('TST_Person', properties={'Name': 'x'})
    b['instance-exists'] = lambda ns, p: CIMInstance('TST_Person', properties={'Name': 'p1'},
                                                     path=CIMInstanceName('TST_Person', {'Name': 'p1'}))
    b['instance-exists-other-case'] = lambda ns, p: CIMInstance(
        'tst_person', properties={'name': 'p1'}, path=CIMInstanceName('TST_PERSON', {'NAME': 'p1'}))
    b['instance-repeated-in-batch'] = lambda ns, p: VALID['instP'].obj(ns) if 'instP' in p else (
        VALID['instA'].obj(ns) if 'instA' in p else None)
    b['qualifier-exists'] = lambda ns, p: CIMQualifierDeclaration('Key', 'boolean')
    b['qualifier-exists-other-case'] = lambda ns, p: CIMQualifierDeclaration('KEY', 'boolean')
    b['qualifier-repeated-in-batch'] = lambda ns, p: VALID['qual'].obj(ns) if 'qual' in p else None
    b['element-is-string'] = lambda ns, p: 'class X {};'
    b['element-is-None'] = lambda ns, p: None
    b['element-is-instance-path'] = lambda ns, p: person(ns, 'p1')
    return b


BAD_OBJ = bad_objects()
BAD_OBJ_MIN = ['class-repeated-in-batch', 'class-superclass-missing', 'class-undeclared-qualifier',
               'class-qualifier-bad-scope', 'instance-without-path', 'instance-repeated-in-batch',
               'qualifier-exists', 'qualifier-repeated-in-batch', 'element-is-string', 'element-is-None']

# invalid MOF productions: reason -> callable(ns, prefix_ids) -> text or None
BAD_MOF = {
    'class-superclass-missing': lambda ns, p: 'class NEW_X : Nope { string a; };',
    'class-reference-class-missing': lambda ns, p: '[Association] class NEW_X { [Key] Nope REF A; '
                                                   '[Key] TST_Person REF B; };',
    'class-embedded-class-missing': lambda ns, p: 'class NEW_X { [EmbeddedInstance("Nope")] string E; };',
    'class-undeclared-qualifier': lambda ns, p: '[Bogus] class NEW_X { string a; };',
    'class-exists-modify-rejected-subclasses': lambda ns, p: 'class TST_Base { [Key] string Id; string New; };',
    'class-exists-modify-rejected-instances': lambda ns, p: 'class TST_Person { [Key] string Name; string New; };',
    'class-duplicate-property-no-override': lambda ns, p: 'class NEW_X : TST_Base { uint32 Num; };',
    'class-reference-in-non-association': lambda ns, p: 'class NEW_X { TST_Person REF R; };',
    'syntax-error-missing-semicolon': lambda ns, p: 'class NEW_X { string a };',
    'syntax-error-keyword': lambda ns, p: 'klass NEW_X { string a; };',
    'lexical-error': lambda ns, p: 'class NEW_X { string @a; };',
    'instance-of-unknown-class': lambda ns, p: 'instance of Nope { X = 1; };',
    'instance-unknown-property': lambda ns, p: 'instance of TST_Person { Name = "q1"; Foo = 3; };',
    'instance-missing-key': lambda ns, p: 'instance of TST_Base { Num = 3; };',
    'instance-value-type-mismatch': lambda ns, p: 'instance of TST_Base { Id = "q2"; Num = "abc"; };',
    'instance-alias-undefined': lambda ns, p: 'instance of TST_Link { A = $nope; B = $nope; };',
    'association-endpoint-missing': lambda ns, p: ('instance of TST_Link { A = "%s:TST_Person.Name=\\"nope\\""; '
                                                   'B = "%s:TST_Person.Name=\\"p1\\""; };' % (ns, ns)),
    'association-endpoint-without-namespace': lambda ns, p: 'instance of TST_Link { A = "TST_Person.Name=\\"p1\\""; '
                                                            'B = "TST_Person.Name=\\"p2\\""; };',
    'qualifier-declaration-bad-value': lambda ns, p: 'Qualifier NewBad : uint32 = "abc", Scope(any);',
    'pragma-include-missing-file': lambda ns, p: '#pragma include ("c11_no_such_file.mof")',
    'pragma-namespace-not-a-name': lambda ns, p: '#pragma namespace ("http://host/root/x")',
    'pragma-namespace-missing': lambda ns, p: '#pragma namespace ("root/nope")\nclass NEW_X { string a; };',
}
BAD_MOF_MIN = ['class-superclass-missing', 'class-undeclared-qualifier', 'syntax-error-missing-semicolon',
               'lexical-error', 'instance-of-unknown-class', 'qualifier-declaration-bad-value',
               'pragma-include-missing-file', 'pragma-namespace-missing']


def prefixes(chains):
    """Distinct (chain-name, k, ids) prefixes, k = 0 once."""
    out = [('-', 0, [])]
    for cname, ch in chains:
        for k in range(1, len(ch) + 1):
            out.append((cname, k, ch[:k]))
    return out


def suffix_for(pids, chain):
    """A valid element that could follow (never reached)."""
    for cid in chain:
        if cid not in pids:
            return cid
    return None


def gen_add_cimobjects():
    for sname, nss, chains, reasons in (('T2', [NS0, NS1], [('A', CHAIN_A), ('B', CHAIN_B)], sorted(BAD_OBJ)),
                                        ('M3', [NS2], [('A', CHAIN_A), ('B', CHAIN_B)], sorted(BAD_OBJ)),
                                        ('MIN', [NS0], [('M', CHAIN_MIN)], BAD_OBJ_MIN)):
        for ns in nss:
            for cname, k, pids in prefixes(chains):
                chain = dict(chains).get(cname, chains[0][1])
                for reason in reasons:
                    bad = BAD_OBJ[reason](ns, pids)
                    if bad is None and reason != 'element-is-None':
                        continue
                    for with_suffix in (False, True):
                        sid = suffix_for(pids, chain) if with_suffix else None
                        if with_suffix and (sid is None or (QUICK and not (sname == 'T2' and ns == NS0))):
                            continue
                        for explicit_ns in ((True, False) if ns == NS0 else (True,)):
                            ids = pids + ['<%s>' % reason] + ([sid] if sid else [])

                            def call(conn, ns=ns, pids=pids, reason=reason, sid=sid, explicit_ns=explicit_ns):
                                objs = [VALID[i].obj(ns) for i in pids] + [BAD_OBJ[reason](ns, pids)]
                                if sid:
                                    objs.append(VALID[sid].obj(ns))
                                conn.add_cimobjects(objs, namespace=ns if explicit_ns else None)
                            effects = [VALID[i].effect(ns) for i in pids]

                            def replay(ns=ns, pids=pids, reason=reason, sid=sid, explicit_ns=explicit_ns, ids=ids,
                                       sname=sname):
                                objs = [VALID[i].obj(ns) for i in pids] + [BAD_OBJ[reason](ns, pids)]
                                if sid:
                                    objs.append(VALID[sid].obj(ns))
                                return 'add_cimobjects(%r, namespace=%r) on state %s with objects [%s]' % (
                                    ids, ns if explicit_ns else None, sname, ', '.join(short(o, 400) for o in objs))
                            yield (sname, 'add_cimobjects', reason, (ns, cname, k, bool(sid), explicit_ns), call,
                                   replay, effects, 'known:add_cimobjects-batch-prefix-kept')
        # single (non-list) invalid object and missing namespace
        ns = NS0
        for reason in reasons:
            bad = BAD_OBJ[reason](ns, [])
            if bad is None:
                continue
            yield (sname, 'add_cimobjects', reason, ('single-object',),
                   lambda conn, reason=reason, ns=ns: conn.add_cimobjects(BAD_OBJ[reason](ns, [])),
                   'add_cimobjects(%s) (single object, no list)' % short(bad, 500), None, None)
        for k in (1, 2):
            ch = chains[0][1]
            yield (sname, 'add_cimobjects', 'namespace-missing', (k,),
                   lambda conn, ch=ch, k=k: conn.add_cimobjects([VALID[i].obj('root/nope') for i in ch[:k]],
                                                                namespace='root/nope'),
                   'add_cimobjects(%r, namespace="root/nope")' % ch[:k], None, None)
        # nested list: inner list fails at its 2nd element
        ch = chains[0][1]
        yield (sname, 'add_cimobjects', 'nested-list-class-superclass-missing', (),
               lambda conn, ch=ch: conn.add_cimobjects(
                   [[VALID[ch[0]].obj(NS0), CIMClass('NEW_X', superclass='Nope')]], namespace=NS0),
               'add_cimobjects([[%s, CIMClass("NEW_X", superclass="Nope")]])' % ch[0],
               [VALID[ch[0]].effect(NS0)], 'known:add_cimobjects-batch-prefix-kept')


def mof_batch(ns, pids, reason, sid):
    parts = [mof_of(VALID[i], ns) for i in pids] + [BAD_MOF[reason](ns, pids)]
    if sid:
        parts.append(mof_of(VALID[sid], ns))
    return '\n'.join(parts)


def gen_mof_batches():
    """Yields (sname, ns, cname, k, pids, reason, sid, explicit_ns, weight) - weight 0 = always in quick."""
    plans = (('T2', [NS0, NS1], [('A', CHAIN_A), ('B', CHAIN_B), ('BM', CHAIN_BM)], sorted(BAD_MOF)),
             ('M3', [NS2], [('A', CHAIN_A), ('BM', CHAIN_BM)], sorted(BAD_MOF)),
             ('MIN', [NS0], [('M', CHAIN_MIN)], BAD_MOF_MIN))
    for sname, nss, chains, reasons in plans:
        for ns in nss:
            for cname, k, pids in prefixes(chains):
                chain = dict(chains).get(cname, chains[0][1])
                for reason in reasons:
                    for with_suffix in (False, True):
                        sid = suffix_for(pids, chain) if with_suffix else None
                        if with_suffix and sid is None:
                            continue
                        for explicit_ns in ((True, False) if ns == NS0 else (True,)):
                            yield sname, ns, cname, k, pids, reason, sid, explicit_ns


def select_quick(items, keep, n_quick, n_thorough=None):
    """Deterministic core (predicate keep) + seeded sample of the rest (thorough: everything if no bound given)."""
    core = [it for it in items if keep(it)]
    rest = [it for it in items if not keep(it)]
    n = n_quick if QUICK else n_thorough
    if n is not None:
        rest = RND.sample(rest, min(n, len(rest)))
    return core + rest


def quick_core_mof(it):
    sname, ns, cname, k, pids, reason, sid, explicit_ns = it
    if sid or not explicit_ns:
        return False
    if sname == 'T2' and ns == NS0:
        return (cname, k) in (('-', 0), ('A', 1), ('BM', 2))
    if sname == 'MIN':
        return (cname, k) == ('M', 2) and reason in ('class-superclass-missing', 'lexical-error')
    return False


def gen_compile_mof_string():
    items = select_quick(list(gen_mof_batches()), quick_core_mof, 30)
    for sname, ns, cname, k, pids, reason, sid, explicit_ns in items:
        text = mof_batch(ns, pids, reason, sid)
        effects = [VALID[i].effect(ns) for i in pids]
        yield (sname, 'compile_mof_string', reason, (ns, cname, k, bool(sid), explicit_ns),
               lambda conn, text=text, ns=ns, e=explicit_ns: conn.compile_mof_string(
                   text, namespace=ns if e else None),
               'compile_mof_string(%r, namespace=%r) on state %s' % (text, ns if explicit_ns else None, sname),
               effects, 'known:compile_mof_string-prefix-kept')
    for sname in ('T2', 'MIN'):
        yield (sname, 'compile_mof_string', 'namespace-missing', (),
               lambda conn: conn.compile_mof_string(VALID['clsA'].mof, namespace='root/nope'),
               'compile_mof_string(%r, namespace="root/nope")' % VALID['clsA'].mof, None, None)
        yield (sname, 'compile_mof_string', 'mof-is-not-a-string', (),
               lambda conn: conn.compile_mof_string(None), 'compile_mof_string(None)', None, None)
    # interop state: namespace pragma creates the namespace through the provider
    new_ns_eff = [('+', ('NS', 'root/new')), ('+', (INTEROP, 'I', ikey(nsinst_path('root/new'))))]
    for reason, text, eff, known in (
            ('pragma-new-namespace-then-failing-class',
             '#pragma namespace ("root/new")\nclass NEW_X : Nope { string a; };', new_ns_eff,
             'known:compile_mof_string-pragma-namespace-created-kept'),
            ('pragma-new-namespace-qualifier-then-failing-class',
             '#pragma namespace ("root/new")\n' + VALID['qual'].mof + '\nclass NEW_X : Nope { string a; };',
             new_ns_eff + [('+', ('root/new', 'Q', 'newq1'))], 'known:compile_mof_string-prefix-kept'),
            ('class-superclass-missing', 'class NEW_X : Nope { string a; };', None, None),
            ('pragma-second-interop-namespace',
             '#pragma namespace ("root/interop")\n' + VALID['qual'].mof, None, None)):
        yield ('INT', 'compile_mof_string', reason, (NS1,),
               lambda conn, text=text: conn.compile_mof_string(text, namespace=NS1),
               'compile_mof_string(%r, namespace=%r) on state INT' % (text, NS1), eff, known)


def tmpdir():
    if TMP['dir'] is None:
        base = '/dev/shm' if os.path.isdir('/dev/shm') and os.access('/dev/shm', os.W_OK) else None
        TMP['dir'] = tempfile.mkdtemp(prefix='c11_', dir=base)
    return TMP['dir']


def write(relpath, text):
    path = os.path.join(tmpdir(), relpath)
    os.makedirs(os.path.dirname(path), exist_ok=True)
    with open(path, 'w', encoding='utf-8') as f:
        f.write(text)
    return path


def gen_compile_mof_file():
    def core(it):
        sname, ns, cname, k, pids, reason, sid, explicit_ns = it
        return (sname == 'T2' and ns == NS1 and not sid and (cname, k) in (('A', 2), ('B', 3))
                and reason in ('class-superclass-missing', 'syntax-error-missing-semicolon',
                               'instance-unknown-property', 'pragma-include-missing-file',
                               'class-exists-modify-rejected-instances', 'instance-alias-undefined'))
    items = select_quick(list(gen_mof_batches()), core, 10, 350)
    n = 0
    for sname, ns, cname, k, pids, reason, sid, explicit_ns in items:
        n += 1
        effects = [VALID[i].effect(ns) for i in pids]
        layouts = ('one-file', 'bad-in-include', 'bad-after-include')
        if QUICK:
            layouts = (layouts[n % 3],)
        for layout in layouts:
            bad = BAD_MOF[reason](ns, pids)
            pre = [mof_of(VALID[i], ns) for i in pids]
            suf = [mof_of(VALID[sid], ns)] if sid else []
            d = 'f%d_%s' % (n, layout)
            if layout == 'one-file':
                main = write(d + '/main.mof', '\n'.join(pre + [bad] + suf))
                desc = {'main.mof': '\n'.join(pre + [bad] + suf)}
            elif layout == 'bad-in-include':
                half = len(pre) // 2
                write(d + '/inc.mof', '\n'.join(pre[half:] + [bad]))
                main = write(d + '/main.mof', '\n'.join(pre[:half] + ['#pragma include ("inc.mof")'] + suf))
                desc = {'main.mof': '\n'.join(pre[:half] + ['#pragma include ("inc.mof")'] + suf),
                        'inc.mof': '\n'.join(pre[half:] + [bad])}
            else:
                if not pre:
                    continue
                write(d + '/inc.mof', '\n'.join(pre))
                main = write(d + '/main.mof', '\n'.join(['#pragma include ("inc.mof")', bad] + suf))
                desc = {'main.mof': '\n'.join(['#pragma include ("inc.mof")', bad] + suf), 'inc.mof': '\n'.join(pre)}
            yield (sname, 'compile_mof_file', reason, (ns, cname, k, bool(sid), explicit_ns, layout),
                   lambda conn, main=main, ns=ns, e=explicit_ns: conn.compile_mof_file(
                       main, namespace=ns if e else None),
                   'compile_mof_file("main.mof", namespace=%r) on state %s with files %r'
                   % (ns if explicit_ns else None, sname, desc), effects, 'known:compile_mof_file-prefix-kept')
    for sname in ('T2', 'MIN'):
        yield (sname, 'compile_mof_file', 'file-missing', (),
               lambda conn: conn.compile_mof_file(os.path.join(tmpdir(), 'c11_nonexistent.mof')),
               'compile_mof_file(<nonexistent path>)', None, None)
        good = write('good/main.mof', VALID['qual'].mof)
        yield (sname, 'compile_mof_file', 'namespace-missing', (),
               lambda conn, good=good: conn.compile_mof_file(good, namespace='root/nope'),
               'compile_mof_file(<file with %r>, namespace="root/nope")' % VALID['qual'].mof, None, None)


SCHEMA_FILES = {
    'sch/qualifiers.mof': QUALS,
    'sch/schema.mof': '\n'.join(['#pragma locale ("en_US")', '#pragma include ("qualifiers.mof")'] + [
        '#pragma include ("Core/%s.mof")' % c for c in
        ('SCH_A', 'SCH_B', 'SCH_BadSuper', 'SCH_Syntax', 'SCH_NeedsSyntax', 'SCH_Link', 'SCH_LinkBad', 'SCH_Z')]),
    'sch/Core/SCH_A.mof': 'class SCH_A { [Key] string Id; };',
    'sch/Core/SCH_B.mof': 'class SCH_B : SCH_A { string X; };',
    'sch/Core/SCH_BadSuper.mof': 'class SCH_BadSuper : SCH_Nowhere { string X; };',
    'sch/Core/SCH_Syntax.mof': 'class SCH_Syntax { string X };',
    'sch/Core/SCH_NeedsSyntax.mof': 'class SCH_NeedsSyntax : SCH_Syntax { string Y; };',
    'sch/Core/SCH_Link.mof': '[Association] class SCH_Link { [Key] SCH_A REF L; [Key] SCH_B REF R; };',
    'sch/Core/SCH_LinkBad.mof': '[Association] class SCH_LinkBad { [Key] SCH_A REF L; [Key] SCH_Nowhere REF R; };',
    'sch/Core/SCH_Z.mof': 'class SCH_Z { [Key] string Id; };',
    'sch2/schema2.mof': '\n'.join(['#pragma include ("Core/SCH_Z.mof")']),
    'sch2/Core/SCH_Z.mof': 'class SCH_Z { [Key] string Id; };',
}
SCHEMA_QUALS = ['association', 'description', 'key', 'override', 'abstract', 'embeddedinstance', 'in', 'out',
                'unused']


def gen_compile_schema_classes():
    for rel, text in sorted(SCHEMA_FILES.items()):
        write(rel, text)
    s1 = os.path.join(tmpdir(), 'sch', 'schema.mof')
    s2 = os.path.join(tmpdir(), 'sch2', 'schema2.mof')
    # (reason, class_names, pragma files, classes that may legitimately have been written before the failure)
    plans = [
        ('first-class-superclass-missing', ['SCH_BadSuper'], [s1], []),
        ('first-class-syntax-error', ['SCH_Syntax'], [s1], []),
        ('class-not-in-schema', ['SCH_A', 'SCH_Nowhere'], [s1], []),
        ('pragma-file-missing', ['SCH_A'], [os.path.join(tmpdir(), 'sch', 'nofile.mof')], []),
        ('second-class-superclass-missing', ['SCH_A', 'SCH_BadSuper'], [s1], ['sch_a']),
        ('third-class-syntax-error', ['SCH_B', 'SCH_Syntax', 'SCH_Z'], [s1], ['sch_a', 'sch_b']),
        ('superclass-file-has-syntax-error', ['SCH_A', 'SCH_NeedsSyntax'], [s1], ['sch_a']),
        ('dependency-of-failing-class-kept', ['SCH_LinkBad'], [s1], ['sch_a']),
        ('after-association-with-dependencies', ['SCH_Link', 'SCH_LinkBad'], [s1], ['sch_a', 'sch_b', 'sch_link']),
        ('second-pragma-file-missing', ['SCH_Z'], [s2, os.path.join(tmpdir(), 'sch', 'nofile.mof')], ['sch_z']),
        ('second-pragma-file-lacks-class-2', ['SCH_A'], [s1, s2], ['sch_a']),
    ]
    for sname, ns in (('T2', NS1), ('MIN', 'root/empty'), ('MIN', NS0)):
        for reason, names, files, allowed in plans:
            eff = [('+', (ns, 'C', c)) for c in allowed]
            if eff and sname == 'MIN' and ns == 'root/empty':
                eff += [('+', (ns, 'Q', q)) for q in SCHEMA_QUALS]    # qualifiers.mof pulled in by the compiler
            yield (sname, 'compile_schema_classes', reason, (ns,),
                   lambda conn, names=names, files=files, ns=ns: conn.compile_schema_classes(
                       names, files if len(files) > 1 else files[0], namespace=ns),
                   'compile_schema_classes(%r, %r, namespace=%r) on state %s; schema files: %r'
                   % (names, [os.path.relpath(f, tmpdir()) for f in files], ns, sname, SCHEMA_FILES),
                   eff, 'known:compile_schema_classes-prefix-kept', True)


# ---------------------------------------------------------------------------------------------------------
# Single-object operations
# ---------------------------------------------------------------------------------------------------------
def q(name, value=True, **kw):
    return CIMQualifier(name, value, **kw)


def P(name, type_='string', **kw):
    return CIMProperty(name, None, type=type_, **kw)


def bad_new_classes(base='NEW_X', superclass_ok='TST_Leaf'):
    """reason -> CIMClass that CreateClass/ModifyClass must reject (besides existence)."""
    c = {}
    c['superclass-missing'] = CIMClass(base, superclass='Nope')
    c['reference-class-missing'] = CIMClass(base, qualifiers={'Association': q('Association')}, properties={
        'A': P('A', 'reference', reference_class='Nope', qualifiers={'Key': q('Key')}),
        'B': P('B', 'reference', reference_class='TST_Person', qualifiers={'Key': q('Key')})})
    c['method-parameter-reference-class-missing'] = CIMClass(base, methods={'M': CIMMethod(
        'M', return_type='uint32', parameters={'r': CIMParameter('r', 'reference', reference_class='Nope')})})
    c['embedded-instance-class-missing'] = CIMClass(base, properties={
        'E': P('E', qualifiers={'EmbeddedInstance': q('EmbeddedInstance', 'Nope')})})
    c['undeclared-qualifier-on-class'] = CIMClass(base, qualifiers={'Bogus': q('Bogus')})
    c['undeclared-qualifier-on-property'] = CIMClass(base, properties={'A': P('A', qualifiers={'Bogus': q('Bogus')})})
    c['undeclared-qualifier-on-method'] = CIMClass(base, methods={'M': CIMMethod(
        'M', return_type='uint32', qualifiers={'Bogus': q('Bogus')})})
    c['undeclared-qualifier-on-parameter'] = CIMClass(base, methods={'M': CIMMethod(
        'M', return_type='uint32', parameters={'p': CIMParameter('p', 'string', qualifiers={'Bogus': q('Bogus')})})})
    c['qualifier-wrong-type'] = CIMClass(base, qualifiers={'Description': q('Description', Uint32(1))})
    c['qualifier-bad-scope-key-on-class'] = CIMClass(base, qualifiers={'Key': q('Key')})
    c['qualifier-bad-scope-association-on-property'] = CIMClass(base, properties={
        'A': P('A', qualifiers={'Association': q('Association')})})
    c['qualifier-bad-scope-in-on-method'] = CIMClass(base, methods={'M': CIMMethod(
        'M', return_type='uint32', qualifiers={'In': q('In')})})
    c['reference-in-non-association'] = CIMClass(base, properties={
        'R': P('R', 'reference', reference_class='TST_Person')})
    return c


def bad_subclasses(base, sup):
    """Rejections that need an existing superclass `sup` (TST_Base-like: Id key, Num uint32, Meth method)."""
    c = {}
    c['duplicate-property-without-override'] = CIMClass(base, superclass=sup, properties={'Num': P('Num', 'uint32')})
    c['duplicate-method-without-override'] = CIMClass(base, superclass=sup, methods={
        'Meth': CIMMethod('Meth', return_type='uint32')})
    c['override-names-missing-property'] = CIMClass(base, superclass=sup, properties={
        'Num': P('Num', 'uint32', qualifiers={'Override': q('Override', 'Nowhere')})})
    c['override-changes-type'] = CIMClass(base, superclass=sup, properties={
        'Num': P('Num', 'string', qualifiers={'Override': q('Override', 'Num')})})
    c['override-changes-arrayness'] = CIMClass(base, superclass=sup, properties={
        'Tags': P('Tags', 'string', qualifiers={'Override': q('Override', 'Tags')})})
    c['override-method-return-type'] = CIMClass(base, superclass=sup, methods={
        'Meth': CIMMethod('Meth', return_type='string', qualifiers={'Override': q('Override', 'Meth')})})
    c['non-overridable-qualifier-changed'] = CIMClass(base, superclass=sup, properties={
        'Id': P('Id', qualifiers={'Override': q('Override', 'Id'), 'Key': q('Key', False)})})
    c['association-derived-from-non-association'] = CIMClass(
        base, superclass=sup, qualifiers={'Association': q('Association')})
    return c


def gen_class_ops():
    for sname, nss in (('T2', [NS0, NS1]), ('M3', [NS2]), ('INT', [NS1])):
        for ns in nss:
            for nsform in ((ns, ns.upper(), '/' + ns + '/') if ns == NS0 else (ns,)):
                # ---- CreateClass
                cc = {}
                cc['already-exists'] = CIMClass('TST_Person', properties={'Name': key_prop('Name')})
                cc['already-exists-other-case'] = CIMClass('tst_person')
                cc['already-exists-has-subclasses'] = CIMClass('TST_Base')
                cc['already-exists-association'] = CIMClass('TST_LINK')
                cc.update(bad_new_classes())
                cc.update(bad_subclasses('NEW_X', 'TST_Base'))
                cc.update({'sub-of-sub-' + k: v for k, v in bad_subclasses('NEW_X', 'TST_SubSub').items()})
                for reason, cls in sorted(cc.items()):
                    yield (sname, 'CreateClass', reason, (nsform,),
                           lambda conn, cls=cls, nsform=nsform: conn.CreateClass(cls.copy(), namespace=nsform),
                           'CreateClass(%s, namespace=%r)' % (short(cls.tomof(), 400), nsform), None, None)
                # ---- ModifyClass
                mc = {}
                mc['not-found'] = CIMClass('Nope', properties={'Id': key_prop()})
                mc['has-subclasses'] = CIMClass('TST_Base', properties={'Id': key_prop()})
                mc['has-subclasses-mid-tree'] = CIMClass('TST_Sub', superclass='TST_Base')
                mc['has-subclasses-other-case'] = CIMClass('tst_leaf', properties={'Id': key_prop()})
                mc['has-instances'] = CIMClass('TST_Person', properties={'Name': key_prop('Name')})
                mc['has-instances-leaf-of-tree'] = CIMClass('TST_SubSub', superclass='TST_Sub')
                mc['has-instances-or-missing-association'] = CIMClass('TST_Loose', qualifiers={'Association': q('Association')},
                                                           properties={'Id': key_prop()})
                mc['superclass-added'] = CIMClass('TST_Solo', superclass='TST_Leaf')
                mc['superclass-removed'] = CIMClass('TST_LeafSub', properties={'W': P('W')})
                mc['superclass-changed'] = CIMClass('TST_LeafSub', superclass='TST_Solo')
                mc['superclass-changed-to-missing'] = CIMClass('TST_LeafSub', superclass='Nope')
                mc.update({k: v for k, v in bad_new_classes('TST_Solo').items() if k != 'superclass-missing'})
                mc['superclass-missing'] = CIMClass('TST_Solo', superclass='Nope')
                for k, v in bad_subclasses('TST_LeafSub', 'TST_Leaf').items():
                    if k in ('association-derived-from-non-association',):
                        mc['sub-' + k] = v
                mc['sub-duplicate-property-without-override'] = CIMClass(
                    'TST_LeafSub', superclass='TST_Leaf', properties={'V': P('V')})
                mc['sub-override-changes-type'] = CIMClass('TST_LeafSub', superclass='TST_Leaf', properties={
                    'V': P('V', 'uint32', qualifiers={'Override': q('Override', 'V')})})
                mc['sub-non-overridable-qualifier-changed'] = CIMClass('TST_LeafSub', superclass='TST_Leaf', properties={
                    'Id': P('Id', qualifiers={'Override': q('Override', 'Id'), 'Key': q('Key', False)})})
                for reason, cls in sorted(mc.items()):
                    yield (sname, 'ModifyClass', reason, (nsform,),
                           lambda conn, cls=cls, nsform=nsform: conn.ModifyClass(cls.copy(), namespace=nsform),
                           'ModifyClass(%s, namespace=%r)' % (short(cls.tomof(), 400), nsform), None, None)
                # ---- DeleteClass
                for reason, name in (('not-found', 'Nope'), ('not-found-empty-name', ''),
                                     ('not-found-name-of-qualifier', 'Key')):
                    yield (sname, 'DeleteClass', reason, (nsform,),
                           lambda conn, name=name, nsform=nsform: conn.DeleteClass(name, namespace=nsform),
                           'DeleteClass(%r, namespace=%r)' % (name, nsform), None, None)
                # ---- qualifier declarations
                for reason, name in (('not-found', 'Nope'), ('in-use-on-class', 'Association'),
                                     ('in-use-on-property', 'Key'), ('in-use-on-property-other-case', 'KEY'),
                                     ('in-use-on-method', 'Description'), ('in-use-on-parameter', 'In'),
                                     ('in-use-on-parameter-2', 'Out'), ('in-use-embeddedinstance', 'EmbeddedInstance'),
                                     ('not-found-name-of-class', 'TST_Base')):
                    yield (sname, 'DeleteQualifier', reason, (nsform,),
                           lambda conn, name=name, nsform=nsform: conn.DeleteQualifier(name, namespace=nsform),
                           'DeleteQualifier(%r, namespace=%r)' % (name, nsform), None, None)
        # invalid namespace for every class/qualifier operation
        for badns in ('root/nope', 'root', NS0 + '/x'):
            ops = {
                'CreateClass': lambda conn, b=badns: conn.CreateClass(CIMClass('NEW_X'), namespace=b),
                'ModifyClass': lambda conn, b=badns: conn.ModifyClass(CIMClass('TST_Solo'), namespace=b),
                'DeleteClass': lambda conn, b=badns: conn.DeleteClass('TST_Solo', namespace=b),
                'SetQualifier': lambda conn, b=badns: conn.SetQualifier(
                    CIMQualifierDeclaration('NewQ', 'string'), namespace=b),
                'DeleteQualifier': lambda conn, b=badns: conn.DeleteQualifier('Unused', namespace=b)}
            for op, call in sorted(ops.items()):
                yield (sname, op, 'namespace-missing', (badns,), call, '%s(..., namespace=%r)' % (op, badns),
                       None, None)
        # client-side rejected parameter types
        for op, call in sorted({
                'SetQualifier': lambda conn: conn.SetQualifier(CIMClass('X')),
                'CreateClass': lambda conn: conn.CreateClass(CIMQualifierDeclaration('X', 'string')),
                'ModifyClass': lambda conn: conn.ModifyClass('TST_Solo'),
                'DeleteQualifier': lambda conn: conn.DeleteQualifier(None),
                'DeleteClass': lambda conn: conn.DeleteClass(None)}.items()):
            yield (sname, op, 'parameter-of-wrong-python-type', (), call, op + '(<wrong type>)', None, None)


def gen_instance_ops():
    for sname, nss in (('T2', [NS0, NS1]), ('M3', [NS0, NS2]), ('ORPH', [NS0]), ('INT', [NS1])):
        for ns in nss:
            other = NS1 if ns != NS1 else NS0
            ci = {}
            ci['class-missing'] = CIMInstance('Nope', properties={'Id': 'x'})
            ci['property-not-in-class'] = CIMInstance('TST_Base', properties={'Id': 'x', 'Foo': 'y'})
            ci['property-type-mismatch'] = CIMInstance('TST_Base', properties={'Id': 'x', 'Num': 'abc'})
            ci['property-array-mismatch'] = CIMInstance('TST_Base', properties={'Id': 'x', 'Tags': 'abc'})
            ci['property-scalar-mismatch'] = CIMInstance('TST_Base', properties={'Id': 'x', 'Num': [Uint32(1)]})
            ci['embedded-instance-wrong-class'] = CIMInstance('TST_Person', properties={
                'Name': 'x', 'Emb': CIMInstance('TST_Person', properties={'Name': 'e'})})
            ci['embedded-instance-on-plain-property'] = CIMInstance('TST_Base', properties={
                'Id': CIMProperty('Id', CIMInstance('TST_Base', properties={'Id': 'e'}), type='string',
                                  embedded_object='instance')})
            ci['embedded-class-on-plain-property'] = CIMInstance('TST_Base', properties={
                'Id': CIMProperty('Id', CIMClass('TST_Base'), type='string', embedded_object='object')})
            ci['key-missing'] = CIMInstance('TST_Base', properties={'Num': Uint32(5)})
            ci['key-missing-subclass'] = CIMInstance('TST_SubSub', properties={'More': 'm'})
            ci['already-exists'] = CIMInstance('TST_Base', properties={'Id': 'b1', 'Num': Uint32(9)})
            ci['already-exists-names-other-case'] = CIMInstance('tst_base', properties={'ID': 'b1'})
            ci['already-exists-subclass'] = CIMInstance('TST_Sub', properties={'Id': 's1'})
            ci['association-endpoint-missing'] = link_inst(person(ns, 'nope'), person(ns, 'p1'))
            ci['association-second-endpoint-missing'] = link_inst(person(ns, 'p1'), person(ns, 'nope'))
            ci['association-endpoint-missing-other-namespace'] = link_inst(person(ns, 'p1'), person(other, 'nope'))
            ci['association-endpoint-namespace-missing'] = link_inst(person(ns, 'p1'), person('root/nope', 'p1'))
            h = person(other, 'p1')
            h.host = 'somehost'
            ci['association-endpoint-with-host'] = link_inst(person(ns, 'p1'), h)
            ci['association-endpoint-without-namespace'] = link_inst(
                CIMInstanceName('TST_Person', {'Name': 'p1'}), person(other, 'p1'))
            ci['association-reference-null'] = CIMInstance('TST_Link', properties={
                'A': person(ns, 'p1'), 'B': CIMProperty('B', None, type='reference')})
            ci['association-key-reference-missing'] = CIMInstance('TST_Link', properties={'A': person(other, 'p1')})
            ci['association-multi-namespace-key-missing'] = CIMInstance('TST_Loose', properties={
                'X': person(ns, 'p1'), 'Y': person(other, 'p1')})
            if sname == 'T2' and ns == NS0:
                ci['association-already-exists'] = link_inst(person(NS0, 'p1'), person(NS0, 'p2'))
            if sname == 'M3':
                ci['association-multi-namespace-already-exists'] = link_inst(person(NS0, 'p1'), person(NS1, 'p1'))
                ci['association-three-namespaces-already-exists'] = link_inst(person(NS1, 'p2'), person(NS2, 'p2'))
                ci['association-class-missing-in-other-namespace'] = loose_inst(
                    'n1', person(NS0, 'p1'), person(NS2, 'p1'))
                ci['association-class-missing-in-third-namespace'] = loose_inst(
                    'n2', person(NS1, 'p1'), person(NS2, 'p1'))
            if sname == 'ORPH':
                ci['association-exists-only-in-other-namespace'] = link_inst(person(NS0, 'p2'), person(NS1, 'p2'))
                ci['association-exists-only-in-request-namespace'] = link_inst(person(NS0, 'p1'), person(NS1, 'p1'))
            for reason, inst in sorted(ci.items()):
                yield (sname, 'CreateInstance', reason, (ns,),
                       lambda conn, inst=inst, ns=ns: conn.CreateInstance(inst.copy(), namespace=ns),
                       'CreateInstance(%s, namespace=%r)' % (short(inst, 600), ns), None, None)
            # namespace given in another lexical case (the repository is case-insensitive on namespaces)
            for reason, inst, tns, keyns in (
                    ('association-endpoint-namespace-other-case',
                     link_inst(person(ns.upper(), 'p2'), person(ns, 'p3')), ns, ns.upper()),
                    ('association-both-endpoint-namespaces-other-case',
                     link_inst(person(ns.upper(), 'p2'), person(ns.upper(), 'p3')), ns, ns.upper()),
                    ('association-request-namespace-other-case',
                     link_inst(person(ns, 'p2'), person(ns, 'p3')), ns.upper(), ns)):
                yield (sname, 'CreateInstance', reason, (ns,),
                       lambda conn, inst=inst, tns=tns: conn.CreateInstance(inst.copy(), namespace=tns),
                       'CreateInstance(%s, namespace=%r)' % (short(inst, 600), tns),
                       [('+', (ns, 'I', ikey(link_path(keyns, inst['A'], inst['B']))))],
                       'known:CreateInstance-association-namespace-other-case-instance-kept')
            # ---- ModifyInstance
            def mod(classname, keys, props, pathclass=None, ns=ns):
                inst = CIMInstance(classname, properties=props)
                inst.path = CIMInstanceName(pathclass or classname, keys, namespace=ns)
                return inst
            mi = {}
            mi['not-found'] = (mod('TST_Base', {'Id': 'zz'}, {'Num': Uint32(1)}), None)
            mi['class-differs-from-path-class'] = (mod('TST_Sub', {'Id': 'b1'}, {'Num': Uint32(1)}, 'TST_Base'), None)
            mi['class-missing'] = (mod('Nope', {'Id': 'b1'}, {'Num': Uint32(1)}), None)
            mi['instance-of-subclass-addressed-by-superclass'] = (mod('TST_Base', {'Id': 's1'}, {'Num': Uint32(1)}), None)
            mi['property-not-in-class'] = (mod('TST_Base', {'Id': 'b1'}, {'Foo': 'x'}), None)
            mi['property-type-mismatch'] = (mod('TST_Base', {'Id': 'b1'}, {'Num': 'abc'}), None)
            mi['property-array-mismatch'] = (mod('TST_Base', {'Id': 'b1'}, {'Tags': 'abc'}), None)
            mi['key-property-changed'] = (mod('TST_Base', {'Id': 'b1'}, {'Id': 'other', 'Num': Uint32(5)}), None)
            mi['second-property-invalid-after-valid-one'] = (
                mod('TST_Sub', {'Id': 's1'}, {'Extra': 'new', 'Num': 'abc'}), None)
            mi['propertylist-unknown-property'] = (mod('TST_Base', {'Id': 'b1'}, {'Num': Uint32(5)}), ['Num', 'Foo'])
            mi['propertylist-valid-but-instance-property-invalid'] = (
                mod('TST_Base', {'Id': 'b1'}, {'Num': Uint32(5), 'Foo': 'x'}), ['Num'])
            mi['embedded-instance-wrong-class'] = (mod('TST_Person', {'Name': 'p1'}, {
                'Emb': CIMInstance('TST_Person', properties={'Name': 'e'})}), None)
            if sname in ('T2', 'M3') and ns == NS0:
                lk = {'Id': 'l1'}
                mi['association-reference-set-to-null'] = (
                    mod('TST_Loose', lk, {'X': CIMProperty('X', None, type='reference')}), None)
                mi['association-new-endpoint-missing'] = (mod('TST_Loose', lk, {'X': person(NS0, 'nope')}), None)
                mi['association-new-endpoint-namespace-missing'] = (
                    mod('TST_Loose', lk, {'Y': person('root/nope', 'p1')}), None)
                hh = person(NS0, 'p3')
                hh.host = 'somehost'
                mi['association-new-endpoint-with-host'] = (mod('TST_Loose', lk, {'Y': hh}), None)
                mi['association-becomes-multi-namespace-without-shadow'] = (
                    mod('TST_Loose', lk, {'Y': person(NS1, 'p3')}), None)
                mi['association-key-reference-changed'] = (mod('TST_Link', {
                    'A': person(NS0, 'p1'), 'B': person(NS0 if sname == 'T2' else NS1, 'p2' if sname == 'T2' else 'p1')},
                    {'A': person(NS0, 'p3')}), None)
            if sname == 'M3' and ns == NS0:
                mi['multi-namespace-association-property-type-mismatch'] = (mod('TST_Link', {
                    'A': person(NS0, 'p1'), 'B': person(NS1, 'p1')}, {'Note': Uint32(3)}), None)
                mi['multi-namespace-association-new-endpoint-missing'] = (
                    mod('TST_Loose', {'Id': 'l2'}, {'Y': person(NS1, 'nope')}), None)
                mi['multi-namespace-association-endpoint-moves-to-namespace-without-class'] = (
                    mod('TST_Loose', {'Id': 'l2'}, {'Y': person(NS2, 'p1')}), None)
                mi['multi-namespace-association-propertylist-unknown-property'] = (
                    mod('TST_Link', {'A': person(NS0, 'p1'), 'B': person(NS1, 'p1')}, {'Note': 'x'}), ['Nope'])
            if sname == 'ORPH':
                a0, b1 = person(NS0, 'p1'), person(NS1, 'p1')
                mi['multi-namespace-association-shadow-missing'] = (
                    mod('TST_Link', {'A': a0, 'B': b1}, {'Note': 'changed'}), None)
                for nm in ('p1', 'p2'):
                    mi['three-namespace-association-one-shadow-missing-' + nm] = (
                        mod('TST_Link', {'A': person(NS1, nm), 'B': person(NS2, nm)}, {'Note': 'changed'}), None)
            for reason, (inst, plist) in sorted(mi.items()):
                yield (sname, 'ModifyInstance', reason, (ns,),
                       lambda conn, inst=inst, plist=plist: conn.ModifyInstance(inst.copy(), PropertyList=plist),
                       'ModifyInstance(%s, PropertyList=%r)' % (short(inst, 700), plist), None, None)
            # ---- DeleteInstance
            di = {}
            di['not-found'] = CIMInstanceName('TST_Base', {'Id': 'zz'}, namespace=ns)
            di['class-missing'] = CIMInstanceName('Nope', {'Id': 'b1'}, namespace=ns)
            di['wrong-key-name'] = CIMInstanceName('TST_Base', {'Ident': 'b1'}, namespace=ns)
            di['instance-of-subclass-addressed-by-superclass'] = CIMInstanceName('TST_Base', {'Id': 's1'}, namespace=ns)
            di['namespace-missing'] = CIMInstanceName('TST_Base', {'Id': 'b1'}, namespace='root/nope')
            di['association-not-found'] = link_path(ns, person(ns, 'p3'), person(ns, 'p3'))
            if sname == 'M3':
                di['multi-namespace-association-not-found-in-request-namespace'] = link_path(
                    NS2, person(NS0, 'p1'), person(NS1, 'p1'))
            for reason, path in sorted(di.items()):
                yield (sname, 'DeleteInstance', reason, (ns,),
                       lambda conn, path=path: conn.DeleteInstance(path.copy()),
                       'DeleteInstance(%s)' % short(path, 500), None, None)
        for op, call in sorted({
                'CreateInstance': lambda conn: conn.CreateInstance(
                    CIMInstance('TST_Base', properties={'Id': 'x'}), namespace='root/nope'),
                'ModifyInstance': lambda conn: conn.ModifyInstance(CIMInstance(
                    'TST_Base', properties={'Num': Uint32(3)},
                    path=CIMInstanceName('TST_Base', {'Id': 'b1'}, namespace='root/nope')))}.items()):
            yield (sname, op, 'namespace-missing', (), call, op + '(... namespace root/nope)', None, None)
        for op, call in sorted({
                'CreateInstance': lambda conn: conn.CreateInstance(CIMInstanceName('TST_Base', {'Id': 'x'})),
                'ModifyInstance-without-path': lambda conn: conn.ModifyInstance(
                    CIMInstance('TST_Base', properties={'Num': Uint32(3)})),
                'DeleteInstance': lambda conn: conn.DeleteInstance(CIMInstance('TST_Base'))}.items()):
            yield (sname, op.split('-')[0], 'parameter-of-wrong-python-type', (op,), call, op + '(<wrong type>)',
                   None, None)
    # ---- orphaned shadows: DeleteInstance / DeleteClass run into a missing shadow instance
    a0, b1 = person(NS0, 'p1'), person(NS1, 'p1')
    yield ('ORPH', 'DeleteInstance', 'two-namespace-association-shadow-missing', (),
           lambda conn: conn.DeleteInstance(link_path(NS0, a0, b1)),
           'state ORPH (TST_Link put into root/cimv2 only with add_cimobjects); DeleteInstance(%s)'
           % short(link_path(NS0, a0, b1), 500), None, None)
    for nm, present in (('p1', NS1), ('p2', NS2)):
        b, c = person(NS1, nm), person(NS2, nm)
        yield ('ORPH', 'DeleteInstance', 'three-namespace-association-one-shadow-missing', (nm,),
               lambda conn, b=b, c=c: conn.DeleteInstance(link_path(NS0, b, c)),
               'state ORPH: TST_Link(A=root/b:TST_Person.Name=%r, B=root/c:TST_Person.Name=%r) added with '
               'add_cimobjects to root/cimv2 and to %s only (shadow in the third namespace missing); '
               'DeleteInstance(%s); which of the variants p1/p2 loses its shadow depends on set order'
               % (nm, nm, present, short(link_path(NS0, b, c), 500)),
               [('-', (present, 'I', ikey(link_path(present, b, c))))],
               'known:DeleteInstance-multi-namespace-shadow-missing-partial-delete')
    orph_first = [('-', (NS0, 'I', ikey(link_path(NS0, person(NS0, 'p3'), person(NS1, 'p3'))))),
                  ('-', (NS1, 'I', ikey(link_path(NS1, person(NS0, 'p3'), person(NS1, 'p3')))))]
    yield ('ORPH', 'DeleteClass', 'instance-of-class-has-missing-shadow', (NS0,),
           lambda conn: conn.DeleteClass('TST_Link', namespace=NS0),
           'state ORPH (good 2-namespace TST_Link created first, then TST_Link instances added to root/cimv2 only '
           'with add_cimobjects); DeleteClass("TST_Link", namespace="root/cimv2")',
           orph_first, 'known:DeleteClass-multi-namespace-shadow-missing-partial-delete', True)


def gen_namespace_ops():
    for sname in ('T2', 'M3', 'MIN', 'INT'):
        add = {'already-exists': NS0 if sname != 'INT' else NS1, 'already-exists-other-case': 'ROOT/CIMV2',
               'already-exists-with-slashes': '/root/cimv2/', 'name-is-None': None}
        if sname == 'INT':
            add['second-interop-namespace'] = 'root/interop'
            add['second-interop-namespace-pg'] = 'root/PG_InterOp'
            add['interop-already-exists'] = 'interop'
        if sname == 'MIN':
            add['already-exists-empty-namespace'] = 'root/empty'
        for reason, name in sorted(add.items()):
            yield (sname, 'add_namespace', reason, (name,),
                   lambda conn, name=name: conn.add_namespace(name), 'add_namespace(%r)' % (name,), None, None)
        rem = {'not-found': 'root/nope', 'name-is-None': None, 'not-empty': NS0 if sname != 'INT' else NS1,
               'not-empty-other-case': 'ROOT/B' if sname in ('T2', 'M3', 'INT') else 'ROOT/CIMV2',
               'not-found-prefix-of-existing': 'root'}
        if sname == 'MIN':
            rem.update({'only-qualifiers': 'root/qonly', 'only-instances': 'root/ionly',
                        'only-classes': '/root/conly'})
        if sname == 'INT':
            rem.update({'interop-namespace': 'interop', 'interop-namespace-with-slash': '/interop'})
        for reason, name in sorted(rem.items()):
            yield (sname, 'remove_namespace', reason, (name,),
                   lambda conn, name=name: conn.remove_namespace(name), 'remove_namespace(%r)' % (name,), None, None)
    # ---- interop namespace + CIM_Namespace provider
    yield ('INT', 'add_namespace', 'stale-CIM_Namespace-instance', (),
           lambda conn: conn.add_namespace('root/gone'),
           'state INT: add_namespace("root/gone") (through the provider), remove_namespace("root/gone") (leaves the '
           'CIM_Namespace instance), then add_namespace("root/gone") raises CIM_ERR_ALREADY_EXISTS',
           [('+', ('NS', 'root/gone'))], 'known:add_namespace-stale-CIM_Namespace-instance-namespace-kept')
    ci = {
        'name-missing': (nsinst('root/new', drop=['Name']), None),
        'creationclassname-missing': (nsinst('root/new', drop=['CreationClassName']), None),
        'creationclassname-wrong': (nsinst('root/new', CreationClassName='CIM_Other'), None),
        'namespace-instance-exists': (nsinst(NS1), None),
        'namespace-instance-exists-other-case': (nsinst('ROOT/B'), None),
        'namespace-instance-exists-other-keys': (nsinst(NS1, SystemName='other'), None),
        'second-interop-namespace': (nsinst('root/interop'), None),
        'property-not-in-class': (nsinst('root/new', Foo='x'), None),
        'property-type-mismatch': (nsinst('root/new', Caption=Uint32(3)), None),
    }
    for dropped in ('SystemName', 'SystemCreationClassName', 'ObjectManagerName', 'ObjectManagerCreationClassName'):
        ci['new-namespace-key-missing-' + dropped] = (
            nsinst('root/new', drop=[dropped]), 'known:CreateInstance-CIM_Namespace-key-missing-namespace-kept')
    ci['stale-instance-exists-namespace-gone'] = (
        nsinst('root/gone'), 'known:CreateInstance-CIM_Namespace-instance-exists-namespace-kept')
    for reason, (inst, known) in sorted(ci.items()):
        nm = inst.properties['Name'].value if 'Name' in inst.properties else None
        yield ('INT', 'CreateInstance', 'CIM_Namespace-' + reason, (),
               lambda conn, inst=inst: conn.CreateInstance(inst.copy(), namespace=INTEROP),
               'state INT (interop namespace with CIM_Namespace provider): CreateInstance(%s, namespace="interop")'
               % short(inst, 900), [('+', ('NS', nm))] if known else None, known)
    yield ('INT', 'CreateInstance', 'CIM_Namespace-in-non-interop-namespace', (),
           lambda conn: conn.CreateInstance(nsinst('root/new'), namespace=NS1), 'CreateInstance(CIM_Namespace) in root/b',
           None, None)
    yield ('INT', 'ModifyInstance', 'CIM_Namespace-not-supported', (),
           lambda conn: conn.ModifyInstance(CIMInstance('CIM_Namespace', properties={'Caption': 'c'},
                                                        path=nsinst_path(NS1))),
           'ModifyInstance(CIM_Namespace root/b Caption)', None, None)
    for reason, name in (('interop-namespace', INTEROP), ('namespace-not-empty', NS1), ('not-found', 'root/nope'),
                         ('namespace-already-gone', 'root/gone')):
        yield ('INT', 'DeleteInstance', 'CIM_Namespace-' + reason, (),
               lambda conn, name=name: conn.DeleteInstance(nsinst_path(name)),
               'DeleteInstance(CIM_Namespace Name=%r) in interop' % name, None, None)
    yield ('INT', 'DeleteClass', 'CIM_Namespace-provider-rejects-later-instance', (),
           lambda conn: conn.DeleteClass('CIM_Namespace', namespace=INTEROP),
           'state INT: FakedWBEMConnection(); add_namespace("interop"); compile CIM_Namespace/CIM_ObjectManager; '
           'install_namespace_provider("interop") (root/cimv2 stays empty, its CIM_Namespace instance comes first); '
           'DeleteClass("CIM_Namespace", namespace="interop")',
           [('-', ('NS', NS0)), ('-', (INTEROP, 'I', ikey(nsinst_path(NS0))))],
           'known:DeleteClass-CIM_Namespace-provider-partial-delete', True)
    yield ('INT', 'DeleteClass', 'CIM_ObjectManager-not-found-other-namespace', (),
           lambda conn: conn.DeleteClass('CIM_ObjectManager', namespace=NS1), 'DeleteClass(CIM_ObjectManager, root/b)',
           None, None)


# ---------------------------------------------------------------------------------------------------------
# Self-check of the element model: the valid chains alone must succeed and leave exactly the modelled keys
# ---------------------------------------------------------------------------------------------------------
def selfcheck():
    for sname, ns, chain, via in (('T2', NS0, CHAIN_A, 'obj'), ('T2', NS1, CHAIN_B, 'obj'), ('T2', NS0, CHAIN_A, 'mof'),
                                  ('T2', NS1, CHAIN_BM, 'mof'), ('MIN', NS0, CHAIN_MIN, 'obj'),
                                  ('MIN', NS0, CHAIN_MIN, 'mof')):
        R.case(('selfcheck', sname, ns, tuple(chain), via))
        st = state(sname)
        conn = st.fresh()
        before = st.before
        try:
            if via == 'obj':
                conn.add_cimobjects([VALID[i].obj(ns) for i in chain], namespace=ns)
            else:
                conn.compile_mof_string('\n'.join(mof_of(VALID[i], ns) for i in chain), namespace=ns)
            err = None
        except Exception as e:  # noqa
            err = '%s: %s' % (type(e).__name__, e)
        added, removed, changed = diff(before, dump(conn))
        st.reset()
        observed = {('+', k) for k in added} | {('-', k) for k in removed} | {('~', k) for k in changed}
        expected = {VALID[i].effect(ns) for i in chain}
        if err or observed != expected:
            R.violation('selfcheck:valid-batch-effects-differ-from-model', state=sname, namespace=ns, chain=chain,
                        via=via, error=short(err), unexpected=sorted(short(x) for x in observed - expected),
                        missing=sorted(short(x) for x in expected - observed))


def main():
    try:
        selfcheck()
        gens = [gen_class_ops(), gen_instance_ops(), gen_namespace_ops(), gen_add_cimobjects(),
                gen_compile_mof_string(), gen_compile_mof_file(), gen_compile_schema_classes()]
        for g in gens:
            t0, n0 = time.time(), R.cases
            for case in g:
                run_case(*case)
            if DEBUG:
                sys.stderr.write('TIME %s: %d cases %.1f s\n' % (g.__name__, R.cases - n0, time.time() - t0))
    finally:
        if TMP['dir']:
            shutil.rmtree(TMP['dir'], ignore_errors=True)
    if DEBUG:
        for x in NOT_RAISED:
            sys.stderr.write('NOT-RAISED %r\n' % (x,))
    R.finish()


main()
