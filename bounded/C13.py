"""Bounded stand-in for C13: association traversal of the mock repository against an independent
reference model (hand-written class hierarchy + book-kept association records, set comprehension)."""
import itertools
import random
import warnings
from bounded.common import Run
from pywbem import CIMInstance, CIMInstanceName, CIMProperty, CIMError, CIMClassName, CIMClass
from pywbem_mock import FakedWBEMConnection

warnings.simplefilter('ignore')

R = Run('association graphs over 12 classes (binary/ternary, key/non-key refs, sub-associations with restated and '
        'inherited Association qualifier) in 3 namespaces: all 2-node pair graphs (5 assoc classes x 4 end-class '
        'pairs x 5 namespace placements x 4 shapes; quick: those differing from the base graph in <= 1 factor + '
        'some cross-namespace 2-factor ones), mixed/ternary/multi-edge/same-id graphs, seeded random graphs of '
        '6..12 nodes and one 30-node graph, NULL ends, dangling ends, create/modify/delete sequences of a non-key '
        'association over 5 nodes in 3 namespaces (quick: 14 of 200); every node, every association instance and a '
        'missing object as source x all (ResultClass, Role) and all filter tuples with <= 2 of the 4 associator '
        'filters set (+ seeded 3/4-filter tuples; thorough: full product on 6 core graphs; random graphs: seeded '
        'tuples only), values = related/unrelated/differently-cased/non-existing names; Open/Pull and Iter '
        'variants; class level: 14 target names x filter tuples with <= 2 filters set + seeded deeper ones')

NSS = ('root/a', 'root/b', 'root/c')
MOF = '''
Qualifier Association : boolean = false, Scope(association), Flavor(DisableOverride, ToSubclass);
Qualifier Key : boolean = false, Scope(property, reference), Flavor(DisableOverride, ToSubclass);
class N_Base { [Key] string Id; };
class N_Sub : N_Base { uint32 X; };
class N_SubSub : N_Sub { };
class N_Other { [Key] string Id; };
[Association] class A_Bin { [Key] N_Base REF Ante; [Key] N_Base REF Dep; };
[Association] class A_BinSub : A_Bin { string Extra; };
class A_BinImp : A_Bin { };
[Association] class A_Mixed { [Key] N_Base REF Left; [Key] N_Other REF Right; };
[Association] class A_Tern { [Key] N_Base REF First; [Key] N_Base REF Second; [Key] N_Other REF Third; };
[Association] class A_Loose { [Key] string Id; N_Base REF Src; N_Base REF Dst; };
[Association] class A_LooseSub : A_Loose { };
[Association] class A_Loose3 { [Key] string Id; N_Base REF P1; N_Base REF P2; N_Other REF P3; };
'''

# ---------------------------------------------------------------- reference model (independent of pywbem)
PARENT = {'N_Base': None, 'N_Sub': 'N_Base', 'N_SubSub': 'N_Sub', 'N_Other': None,
          'A_Bin': None, 'A_BinSub': 'A_Bin', 'A_BinImp': 'A_Bin', 'A_Mixed': None, 'A_Tern': None,
          'A_Loose': None, 'A_LooseSub': 'A_Loose', 'A_Loose3': None}
CANON = {c.lower(): c for c in PARENT}
ROLES = {'A_Bin': ('Ante', 'Dep'), 'A_BinSub': ('Ante', 'Dep'), 'A_BinImp': ('Ante', 'Dep'),
         'A_Mixed': ('Left', 'Right'), 'A_Tern': ('First', 'Second', 'Third'),
         'A_Loose': ('Src', 'Dst'), 'A_LooseSub': ('Src', 'Dst'), 'A_Loose3': ('P1', 'P2', 'P3')}
ROLE_TYPE = {'Ante': 'N_Base', 'Dep': 'N_Base', 'Left': 'N_Base', 'Right': 'N_Other', 'First': 'N_Base',
             'Second': 'N_Base', 'Third': 'N_Other', 'Src': 'N_Base', 'Dst': 'N_Base', 'P1': 'N_Base',
             'P2': 'N_Base', 'P3': 'N_Other'}
ID_KEYED = ('A_Loose', 'A_LooseSub', 'A_Loose3')
TOP_ASSOC = ('A_Bin', 'A_Mixed', 'A_Tern', 'A_Loose', 'A_Loose3')
INVALID = 'INVALID'     # expectation for a class filter naming a class that does not exist
K_HOST = 'known:associators-instance-paths-lack-host'
K_NULL = 'known:null-reference-end-TypeError'
K_DANGLING = 'known:dangling-end-associators-NOT_FOUND'
K_IMP = 'known:inherited-association-qualifier-no-shadow'
K_STALE = 'known:modify-assoc-leaves-stale-shadow'


def exists(cls):
    return cls.lower() in CANON


def is_a(cls, anc):
    c, a = CANON[cls.lower()], CANON[anc.lower()]
    while c:
        if c == a:
            return True
        c = PARENT[c]
    return False


def children(cls):
    return [c for c, p in PARENT.items() if p == cls]


def nodekey(n):
    return (n[0], n[1].lower(), (('id', n[2]),))


class Rec:
    def __init__(self, cls, aid, ends):
        self.cls, self.aid, self.ends = cls, aid, tuple(ends)

    def key(self, ns):
        if self.cls in ID_KEYED:
            return (ns, self.cls.lower(), (('id', self.aid),))
        return (ns, self.cls.lower(), tuple(sorted((r.lower(), nodekey(e)) for r, e in self.ends)))

    def end_nss(self):
        return {e[0] for _, e in self.ends if e is not None}


def srt(keys):
    return sorted(keys, key=repr)


def model_refs(store, xk, rc, role):
    if rc is not None and not exists(rc):
        return INVALID
    out = []
    for rec in store[xk[0]].values():
        if rc is not None and not is_a(rec.cls, rc):
            continue
        if any(e is not None and nodekey(e) == xk and (role is None or r.lower() == role.lower())
               for r, e in rec.ends):
            out.append(rec.key(xk[0]))
    return srt(out)


def model_assocs(store, xk, ac, rc, role, rrole):
    if (ac is not None and not exists(ac)) or (rc is not None and not exists(rc)):
        return INVALID
    out = set()
    for rec in store[xk[0]].values():
        if ac is not None and not is_a(rec.cls, ac):
            continue
        for i, (r1, e1) in enumerate(rec.ends):
            if e1 is None or nodekey(e1) != xk or (role is not None and r1.lower() != role.lower()):
                continue
            for j, (r2, e2) in enumerate(rec.ends):
                if i == j or e2 is None or nodekey(e2) == xk:
                    continue
                if rrole is not None and r2.lower() != rrole.lower():
                    continue
                if rc is not None and not is_a(e2[1], rc):
                    continue
                out.add(nodekey(e2))
    return srt(out)


# ---------------------------------------------------------------- observation helpers
def kval(v):
    return kpath(v) if isinstance(v, CIMInstanceName) else v


def kpath(p):
    return ((p.namespace or '').lower(), p.classname.lower(),
            tuple(sorted((k.lower(), kval(v)) for k, v in p.keybindings.items())))


def call(f, *a, **k):
    try:
        return ('ok', f(*a, **k))
    except CIMError as e:
        return ('cimerror', e.status_code)
    except Exception as e:  # noqa
        return ('exc', type(e).__name__, str(e)[:100])


PENDING = {}


def viol(vid, **d):
    if vid not in PENDING:
        PENDING[vid] = d


def swapcase_first(s):
    return s[0].swapcase() + s[1:-1] + s[-1].swapcase()


TEMPLATE = []


def new_conn(pull):
    if not TEMPLATE:
        t = FakedWBEMConnection(default_namespace='root/a')
        t.compile_mof_string(MOF, namespace='root/a')
        classes = t.EnumerateClasses(DeepInheritance=True, LocalOnly=True, IncludeQualifiers=True)

        def depth(c):
            d, n = 0, c.classname
            while PARENT[n]:
                d, n = d + 1, PARENT[n]
            return d
        TEMPLATE.extend(t.EnumerateQualifiers())
        TEMPLATE.extend(sorted(classes, key=depth))
        assert {c.classname for c in classes} == set(PARENT)
    c = FakedWBEMConnection(default_namespace='root/a', use_pull_operations=pull)
    for ns in NSS:
        if ns != 'root/a':
            c.add_namespace(ns)
        c.add_cimobjects(TEMPLATE, namespace=ns)
    return c


def ipath(n):
    return CIMInstanceName(n[1], {'Id': n[2]}, namespace=n[0])


class World:
    count = 0

    def __init__(self, name):
        World.count += 1
        self.name = name
        self.conn = new_conn(None if World.count % 2 else False)
        self.steps = []
        self.nodes = []
        self.ideal = {ns: {} for ns in NSS}
        self.alt = {ns: {} for ns in NSS}       # predicted behaviour of the two known shadow defects
        self.alt_id = None
        self.null_ns = set()
        self.dangling = set()
        self.seq = 0
        self.obs = {}

    # -- building
    def node(self, ns, cls, nid):
        n = (ns, cls, nid)
        self.steps.append('CreateInstance %s %s.Id=%s' % n)
        p = self.conn.CreateInstance(CIMInstance(cls, properties={'Id': nid}), namespace=ns)
        if kpath(p) != nodekey(n):
            viol('create-returned-path-differs', steps=self.steps, observed=str(p))
        self.nodes.append(n)
        return n

    def _diverged(self, vid):
        # Rec objects are shared between the two stores, so dict comparison is by identity of the records
        if self.alt != self.ideal:
            self.alt_id = self.alt_id or vid

    def assoc(self, cls, req, ends, via='create'):
        """ends: list of (role, node|None). Returns the association id (key into the model stores)."""
        self.seq += 1
        aid = 'as%d' % self.seq
        rec = Rec(cls, aid, ends)
        self.steps.append('%s %s in %s %s' % (via, cls, req, ' '.join(
            '%s=%s' % (r, 'NULL' if e is None else '%s:%s.Id=%s' % e) for r, e in ends)))
        if via == 'create':
            props = {r: ipath(e) for r, e in ends}
            if cls in ID_KEYED:
                props['Id'] = aid
            p = self.conn.CreateInstance(CIMInstance(cls, properties=props), namespace=req)
            if kpath(p) != rec.key(req):
                viol('create-returned-path-differs', steps=self.steps, observed=str(p))
            for ns in {req} | rec.end_nss():
                self.ideal[ns][aid] = rec
            for ns in ({req} if cls == 'A_BinImp' else {req} | rec.end_nss()):
                self.alt[ns][aid] = rec
            self._diverged(K_IMP)
        else:
            assert cls in ID_KEYED and rec.end_nss() <= {req}
            props = [CIMProperty('Id', aid)] + [
                CIMProperty(r, None if e is None else ipath(e), type='reference', reference_class=ROLE_TYPE[r])
                for r, e in ends]
            self.conn.add_cimobjects(CIMInstance(cls, properties=props,
                                                 path=CIMInstanceName(cls, {'Id': aid}, namespace=req)),
                                     namespace=req)
            self.ideal[req][aid] = rec
            self.alt[req][aid] = rec
            if any(e is None for _, e in ends):
                self.null_ns.add(req)
        return aid

    def modify(self, aid, m, role, new):
        old = self.ideal[m][aid]
        rec = Rec(old.cls, aid, [(r, new if r == role else e) for r, e in old.ends])
        self.steps.append('ModifyInstance %s.Id=%s in %s: %s=%s:%s.Id=%s' % ((old.cls, aid, m, role) + new))
        r = call(self.conn.ModifyInstance, CIMInstance(old.cls, properties={role: ipath(new)},
                                                       path=CIMInstanceName(old.cls, {'Id': aid}, namespace=m)))
        self.steps[-1] += ' -> %s' % (r[0] if r[0] == 'ok' else repr(r[1:]))
        if r[0] == 'exc':
            viol('modify-raises-' + r[1], steps=self.steps)
        if r[0] != 'ok':
            return False    # refused: the repository must be unchanged (checked by the traversal afterwards)
        s_new = {m} | rec.end_nss()
        for ns in NSS:
            if ns in s_new:
                self.ideal[ns][aid] = rec
                self.alt[ns][aid] = rec
            else:
                self.ideal[ns].pop(aid, None)
        self._diverged(K_STALE)
        return True

    def delete_assoc(self, aid, m):
        rec = self.ideal[m][aid]
        self.steps.append('DeleteInstance %s %s in %s' % (rec.cls, aid, m))
        p = CIMInstanceName(rec.cls, {'Id': aid}, namespace=m) if rec.cls in ID_KEYED else \
            CIMInstanceName(rec.cls, {r: ipath(e) for r, e in rec.ends}, namespace=m)
        r = call(self.conn.DeleteInstance, p)
        if r[0] != 'ok':
            viol('delete-association-fails', steps=self.steps, observed=repr(r))
            return
        arec = self.alt[m].get(aid, rec)
        for ns in NSS:
            self.ideal[ns].pop(aid, None)
        for ns in ({m} | arec.end_nss() if arec.cls != 'A_BinImp' else {m}):
            self.alt[ns].pop(aid, None)
        self._diverged(K_STALE)

    def delete_node(self, n):
        self.steps.append('DeleteInstance %s %s.Id=%s' % n)
        self.conn.DeleteInstance(ipath(n))
        self.dangling.add(nodekey(n))

    # -- filter universes relevant for this world
    def universes(self):
        acls, ncls = [], []
        for ns in NSS:
            for rec in self.ideal[ns].values():
                if rec.cls not in acls:
                    acls.append(rec.cls)
        for n in self.nodes:
            if n[1] not in ncls:
                ncls.append(n[1])

        def fam(used):
            out = []
            for c in used:
                for d in [c, PARENT[c]] + children(c)[:1]:
                    if d and d not in out:
                        out.append(d)
            return out
        afam, nfam = fam(acls), fam(ncls)
        ac = [None] + afam + [swapcase_first(c) for c in acls[:2]] + ['N_Base', 'A_Nope']
        if len(afam) < 4:
            ac.append('A_Mixed' if 'A_Mixed' not in afam else 'A_Tern')
        rc = [None] + nfam + [swapcase_first(c) for c in ncls[:2]] + ['A_Bin', 'N_Nope']
        if 'N_Other' not in nfam:
            rc.append('N_Other')
        roles = []
        for c in acls:
            for r in ROLES[c]:
                if r not in roles:
                    roles.append(r)
        ro = [None] + roles + [swapcase_first(roles[0]), roles[-1].upper()] + ['Nope'] if roles else [None, 'Ante', 'Nope']
        return ac, rc, ro

    def sources(self):
        out = [('%s:%s.Id=%s' % n, ipath(n), nodekey(n)) for n in self.nodes]
        seen = set()
        for ns in NSS:
            for rec in self.ideal[ns].values():
                k = rec.key(ns)
                if k in seen:
                    continue
                seen.add(k)
                if rec.cls in ID_KEYED:
                    p = CIMInstanceName(rec.cls, {'Id': rec.aid}, namespace=ns)
                elif all(e is not None for _, e in rec.ends):
                    p = CIMInstanceName(rec.cls, {r: ipath(e) for r, e in rec.ends}, namespace=ns)
                else:
                    continue
                out.append(('assoc %s %s in %s' % (rec.cls, rec.aid, ns), p, k))
        missing = ('root/a', 'N_Base', 'missing')
        out.append(('missing root/a:N_Base.Id=missing', ipath(missing), nodekey(missing)))
        return out


# ---------------------------------------------------------------- checks
def expect(world, fn, *args):
    return fn(world.ideal, *args), fn(world.alt, *args)


def classify(world, generic, exp, exp_alt, obs, **detail):
    """obs differs from the ideal expectation: attribute to a known shadow defect only if the defect model predicts
    exactly this observation."""
    if world.alt_id and exp_alt != exp and obs == exp_alt:
        viol(world.alt_id, steps=world.steps, expected=repr(exp)[:400], observed=repr(obs)[:400], **detail)
    else:
        viol(generic, steps=world.steps, expected=repr(exp)[:400], observed=repr(obs)[:400], **detail)


def exc_known(world, ns, r):
    return ns in world.null_ns and r[0] == 'exc' and r[1] == 'TypeError'


def check_invalid(world, op, names, full, detail):
    """Class filter names a non-existing class: refused with INVALID_PARAMETER or empty, same for both variants."""
    ok = lambda r: r == ('cimerror', 4) or (r[0] == 'ok' and not r[1])  # noqa
    if not ok(names) or not ok(full):
        viol(op + '-nonexistent-class-filter-not-refused-or-empty', steps=world.steps,
             observed=[repr(names)[:200], repr(full)[:200]], **detail)
    elif names[0] != full[0]:
        viol(op + '-nonexistent-class-filter-names-and-full-disagree', steps=world.steps,
             observed=[repr(names)[:200], repr(full)[:200]], **detail)


def inst_matches_model(world, inst):
    """The full variants return the stored objects: class and property values as book-kept."""
    k = kpath(inst.path)
    for n in world.nodes:
        if nodekey(n) == k:
            return inst.classname.lower() == n[1].lower() and inst.get('Id') == n[2] and \
                set(x.lower() for x in inst.keys()) <= {'id', 'x'}
    for rec in world.ideal.get(k[0], {}).values():
        if rec.key(k[0]) == k:
            if inst.classname.lower() != rec.cls.lower():
                return False
            for r, e in rec.ends:
                v = inst.get(r)
                if (v is None) != (e is None) or (e is not None and kpath(v) != nodekey(e)):
                    return False
            return True
    return None


def check_assoc(world, src, flt, variants=False):
    label, xpath, xk = src
    ac, rc, role, rrole = flt
    R.case((world.name, 'A', label, flt))
    detail = dict(op='Associators/AssociatorNames', source=label, AssocClass=ac, ResultClass=rc, Role=role,
                  ResultRole=rrole)
    kw = {k: v for k, v in zip(('AssocClass', 'ResultClass', 'Role', 'ResultRole'), flt) if v is not None}
    conn = world.conn
    names = call(conn.AssociatorNames, xpath, **kw)
    full = call(conn.Associators, xpath, **kw)
    exp, exp_alt = expect(world, model_assocs, xk, ac, rc, role, rrole)
    world.obs[(label, flt)] = None
    for r in (names, full):
        if r[0] == 'exc':
            viol(K_NULL if exc_known(world, xk[0], r) else 'associators-raises-' + r[1], steps=world.steps,
                 observed=repr(r), **detail)
            return
    if exp == INVALID:
        check_invalid(world, 'associators', names, full, detail)
        return
    if names[0] != 'ok':
        viol('associatornames-fails', steps=world.steps, observed=repr(names), **detail)
        return
    if not all(isinstance(p, CIMInstanceName) for p in names[1]):
        viol('associatornames-returns-non-path', steps=world.steps, observed=repr(names[1])[:300], **detail)
        return
    got = srt(kpath(p) for p in names[1])
    world.obs[(label, flt)] = got
    if got != exp:
        classify(world, 'associatornames-membership-differs', exp, exp_alt, got, **detail)
        return
    if full[0] != 'ok':
        if full == ('cimerror', 6) and set(exp) & world.dangling:
            viol(K_DANGLING, steps=world.steps, names=repr(got)[:300], observed=repr(full), **detail)
        else:
            viol('associators-fails-where-names-succeeds', steps=world.steps, observed=repr(full), **detail)
        return
    if not all(isinstance(i, CIMInstance) and i.path is not None for i in full[1]):
        viol('associators-returns-non-instance-or-no-path', steps=world.steps, **detail)
        return
    gotf = srt(kpath(i.path) for i in full[1])
    if gotf != got:
        viol('associators-paths-differ-from-names', steps=world.steps, names=repr(got)[:300],
             observed=repr(gotf)[:300], **detail)
        return
    for i in full[1]:
        if inst_matches_model(world, i) is not True:
            viol('associators-instance-differs-from-stored', steps=world.steps, observed=i.tomof()[:300], **detail)
    hosts_n = {p.host for p in names[1]}
    hosts_f = {i.path.host for i in full[1]}
    if hosts_n != hosts_f:
        if hosts_n == {conn.host} and hosts_f == {None}:
            viol(K_HOST, steps=world.steps, names_host=conn.host, full_host=None, **detail)
        else:
            viol('associators-path-host-differs-from-names', steps=world.steps, names_hosts=repr(hosts_n),
                 full_hosts=repr(hosts_f), **detail)
    if variants:
        check_variants(world, 'assoc', xpath, kw, got, detail)


def check_refs(world, src, flt, variants=False):
    label, xpath, xk = src
    rc, role = flt
    R.case((world.name, 'R', label, flt))
    detail = dict(op='References/ReferenceNames', source=label, ResultClass=rc, Role=role)
    kw = {k: v for k, v in zip(('ResultClass', 'Role'), flt) if v is not None}
    conn = world.conn
    names = call(conn.ReferenceNames, xpath, **kw)
    full = call(conn.References, xpath, **kw)
    exp, exp_alt = expect(world, model_refs, xk, rc, role)
    world.obs[(label, 'R', flt)] = None
    for r in (names, full):
        if r[0] == 'exc':
            viol(K_NULL if exc_known(world, xk[0], r) else 'references-raises-' + r[1], steps=world.steps,
                 observed=repr(r), **detail)
            return
    if exp == INVALID:
        check_invalid(world, 'references', names, full, detail)
        return
    if names[0] != 'ok' or full[0] != 'ok':
        viol('references-fails', steps=world.steps, observed=[repr(names)[:200], repr(full)[:200]], **detail)
        return
    if not all(isinstance(p, CIMInstanceName) for p in names[1]) or \
            not all(isinstance(i, CIMInstance) and i.path is not None for i in full[1]):
        viol('references-returns-wrong-kind', steps=world.steps, **detail)
        return
    got = srt(kpath(p) for p in names[1])
    world.obs[(label, 'R', flt)] = got
    if got != exp:
        classify(world, 'referencenames-membership-differs', exp, exp_alt, got, **detail)
        return
    gotf = srt(kpath(i.path) for i in full[1])
    if gotf != got:
        viol('references-paths-differ-from-names', steps=world.steps, names=repr(got)[:300],
             observed=repr(gotf)[:300], **detail)
        return
    for i in full[1]:
        if inst_matches_model(world, i) is not True:
            viol('references-instance-differs-from-stored', steps=world.steps, observed=i.tomof()[:300], **detail)
    if {p.host for p in names[1]} != {i.path.host for i in full[1]}:
        viol('references-path-host-differs-from-names', steps=world.steps, **detail)
    if variants:
        check_variants(world, 'ref', xpath, kw, got, detail)


def drain(conn, first, attr, pull):
    items = list(getattr(first, attr))
    r = first
    n = 0
    while not r.eos:
        r = pull(r.context, MaxObjectCount=2)
        items.extend(getattr(r, attr))
        n += 1
        if n > 200:
            raise RuntimeError('pull does not terminate')
    return items


def check_variants(world, kind, xpath, kw, got, detail):
    """Open.../Pull... and Iter... variants deliver the same paths as the (already checked) Names operation."""
    c = world.conn
    if kind == 'assoc':
        ops = [('OpenAssociatorInstancePaths', lambda: drain(c, c.OpenAssociatorInstancePaths(xpath, MaxObjectCount=1, **kw), 'paths', c.PullInstancePaths), False),
               ('OpenAssociatorInstances', lambda: drain(c, c.OpenAssociatorInstances(xpath, MaxObjectCount=1, **kw), 'instances', c.PullInstancesWithPath), True),
               ('IterAssociatorInstancePaths', lambda: list(c.IterAssociatorInstancePaths(xpath, MaxObjectCount=2, **kw)), False),
               ('IterAssociatorInstances', lambda: list(c.IterAssociatorInstances(xpath, MaxObjectCount=2, **kw)), True)]
    else:
        ops = [('OpenReferenceInstancePaths', lambda: drain(c, c.OpenReferenceInstancePaths(xpath, MaxObjectCount=1, **kw), 'paths', c.PullInstancePaths), False),
               ('OpenReferenceInstances', lambda: drain(c, c.OpenReferenceInstances(xpath, MaxObjectCount=1, **kw), 'instances', c.PullInstancesWithPath), True),
               ('IterReferenceInstancePaths', lambda: list(c.IterReferenceInstancePaths(xpath, MaxObjectCount=2, **kw)), False),
               ('IterReferenceInstances', lambda: list(c.IterReferenceInstances(xpath, MaxObjectCount=2, **kw)), True)]
    for name, fn, is_inst in ops:
        R.case((world.name, name, detail['source'], tuple(sorted(kw.items()))))
        r = call(fn)
        d = dict(detail, op=name)
        if r[0] != 'ok':
            viol('pull-or-iter-variant-fails', steps=world.steps, observed=repr(r), **d)
            continue
        try:
            paths = [i.path for i in r[1]] if is_inst else r[1]
            gotv = srt(kpath(p) for p in paths)
        except Exception as e:  # noqa
            viol('pull-or-iter-variant-returns-wrong-kind', steps=world.steps, observed=repr(e), **d)
            continue
        if gotv != got:
            viol('pull-or-iter-variant-differs-from-names', steps=world.steps, names=repr(got)[:300],
                 observed=repr(gotv)[:300], **d)
        elif {p.host for p in paths} - {c.host}:
            if kind == 'assoc' and is_inst and {p.host for p in paths} == {None}:
                viol(K_HOST, steps=world.steps, names_host=c.host, full_host=None, **d)
            else:
                viol('pull-or-iter-variant-path-host-differs', steps=world.steps, **d)


def names_only(world, src, flt):
    """AssociatorNames result for the invariant checks (cached; None if refused/failed)."""
    label, xpath, xk = src
    if (label, flt) not in world.obs:
        kw = {k: v for k, v in zip(('AssocClass', 'ResultClass', 'Role', 'ResultRole'), flt) if v is not None}
        r = call(world.conn.AssociatorNames, xpath, **kw)
        world.obs[(label, flt)] = srt(kpath(p) for p in r[1]) if r[0] == 'ok' else None
    return world.obs[(label, flt)]


def check_monotone(world, src, flts):
    """Adding a filter never adds results (checked on the observed results, no model involved)."""
    for flt in flts:
        got = names_only(world, src, flt)
        if not got:
            continue
        for i in range(4):
            if flt[i] is None:
                continue
            weaker = flt[:i] + (None,) + flt[i + 1:]
            w = names_only(world, src, weaker)
            if w is not None and not set(got) <= set(w):
                viol('filter-adds-results', steps=world.steps, source=src[0], filters=flt, weaker=weaker,
                     observed=repr(got)[:300], weaker_result=repr(w)[:300])


def check_symmetry(world, srcs, flts):
    """y in Assoc(x; ac, -, role, rrole)  <=>  x in Assoc(y; ac, -, rrole, role), on observed results."""
    by_key = {s[2]: s for s in srcs}
    for src in srcs:
        for flt in flts:
            if flt[1] is not None or (src[0], flt) not in world.obs:
                continue
            got = world.obs[(src[0], flt)]
            for yk in got or ():
                ys = by_key.get(yk)
                if ys is None:
                    continue
                back_flt = (flt[0], None, flt[3], flt[2])
                back = names_only(world, ys, back_flt)
                if back is not None and src[2] not in back:
                    xk = src[2]
                    pred = model_assocs(world.alt, yk, *back_flt)
                    if world.alt_id and pred != INVALID and xk not in pred and \
                            yk in model_assocs(world.alt, xk, *flt):
                        viol(world.alt_id, steps=world.steps, source=src[0], filters=flt, associated=ys[0],
                             reverse_filters=back_flt, reverse_result=repr(back)[:300])
                    else:
                        viol('association-not-symmetric', steps=world.steps, source=src[0], filters=flt,
                             associated=ys[0], reverse_filters=back_flt, reverse_result=repr(back)[:300])


def check_store(world):
    """The association instances (incl. cross-namespace shadows) stored per namespace are the book-kept ones."""
    for ns in NSS:
        R.case((world.name, 'store', ns))
        got = []
        for top in TOP_ASSOC:
            r = call(world.conn.EnumerateInstanceNames, top, namespace=ns)
            if r[0] != 'ok':
                if not (ns in world.null_ns):
                    viol('enumerate-association-instances-fails', steps=world.steps, observed=repr(r))
                return
            got.extend(kpath(p) for p in r[1])
        exp = srt(rec.key(ns) for rec in world.ideal[ns].values())
        alt = srt(rec.key(ns) for rec in world.alt[ns].values())
        if srt(got) != exp:
            classify(world, 'stored-association-instances-differ-from-model', exp, alt, srt(got), namespace=ns)


SPARSE_K = 4 if R.tier == 'quick' else 8


def filter_tuples(world, mode, rnd, nsample):
    ac, rc, ro = world.universes()
    uni = (ac, rc, ro, ro)
    if mode == 'full':
        return list(itertools.product(*uni)), uni
    out = [(None, None, None, None)]
    for i in range(4):
        for v in uni[i][1:]:
            t = [None] * 4
            t[i] = v
            out.append(tuple(t))
    if mode == 'sparse':
        out = out[:1] + rnd.sample(out[1:], min(SPARSE_K, len(out) - 1))
    if mode == 'pairs':
        for i, j in itertools.combinations(range(4), 2):
            for v in uni[i][1:]:
                for w in uni[j][1:]:
                    t = [None] * 4
                    t[i], t[j] = v, w
                    out.append(tuple(t))
    seen = set(out)
    for _ in range(nsample):
        k = rnd.choice((2, 3, 3, 4)) if mode == 'singles' else rnd.choice((3, 3, 4))
        pos = rnd.sample(range(4), k)
        t = [None] * 4
        for p in pos:
            t[p] = rnd.choice(uni[p][1:])
        if tuple(t) not in seen:
            seen.add(tuple(t))
            out.append(tuple(t))
    return out, uni


def explore(world, mode, rnd, nsample=12, variants=2, node_sources_only=False, light_sources=(),
            light_refs=False):
    """Check every source of the world. mode: 'full' | 'pairs' | 'singles' | 'sparse' (= no filter + SPARSE_K seeded
    single filters, drawn per source) (+ nsample seeded deeper tuples)."""
    check_store(world)
    srcs = world.sources()
    tuples, uni = filter_tuples(world, mode, rnd, nsample)
    light, _ = filter_tuples(world, 'singles', rnd, 0)
    ref_tuples = list(itertools.product(uni[0], uni[2]))
    all_tuples = list(tuples)
    for src in srcs:
        is_node = src[0][:4] == 'root'
        heavy = is_node and src[0] not in light_sources
        if node_sources_only and not is_node:
            continue
        if mode == 'sparse' and heavy:
            tuples, _ = filter_tuples(world, mode, rnd, nsample)
            all_tuples.extend(tuples)
        tl = tuples if heavy else light
        vset = set([tl[0]] + rnd.sample(tl[1:], min(variants, len(tl) - 1))) if heavy else set()
        for flt in tl:
            check_assoc(world, src, flt, variants=flt in vset)
        rl = ref_tuples if heavy and not light_refs else [t for t in ref_tuples if t[0] is None or t[1] is None]
        if mode == 'sparse':
            rl = rl[:1] + rnd.sample(ref_tuples[1:], min(SPARSE_K, len(ref_tuples) - 1))
        rv = set([rl[0]] + rnd.sample(rl[1:], min(variants, len(rl) - 1))) if heavy else set()
        for flt in rl:
            check_refs(world, src, flt, variants=flt in rv)
        check_monotone(world, src, tl)
        # ReferenceNames monotone as well
        for flt in rl:
            got = world.obs.get((src[0], 'R', flt))
            for weaker in ((None, flt[1]), (flt[0], None)):
                w = world.obs.get((src[0], 'R', weaker))
                if got and w is not None and not set(got) <= set(w):
                    viol('filter-adds-results', steps=world.steps, source=src[0], op='ReferenceNames', filters=flt,
                         weaker=weaker)
    check_symmetry(world, srcs, all_tuples)
    check_source_forms(world, srcs)


def check_source_forms(world, srcs):
    """The same source object named differently (no namespace for the default one, other lexical case)."""
    for label, xpath, xk in srcs:
        if label[:4] != 'root':
            continue
        base = world.obs.get((label, (None, None, None, None)))
        if base is None:
            continue
        forms = [CIMInstanceName(swapcase_first(xpath.classname), {'ID': xpath.keybindings['Id']},
                                 namespace=xpath.namespace.upper())]
        if xpath.namespace == 'root/a':
            forms.append(CIMInstanceName(xpath.classname, {'Id': xpath.keybindings['Id']}))
        for f in forms:
            R.case((world.name, 'form', label, str(f)))
            r = call(world.conn.AssociatorNames, f)
            if r[0] != 'ok' or srt(kpath(p) for p in r[1]) != base:
                viol('source-name-form-changes-result', steps=world.steps, source=str(f), expected=repr(base)[:300],
                     observed=repr(r)[:300])
            r2 = call(world.conn.ReferenceNames, f)
            b2 = world.obs.get((label, 'R', (None, None)))
            if b2 is not None and (r2[0] != 'ok' or srt(kpath(p) for p in r2[1]) != b2):
                viol('source-name-form-changes-result', steps=world.steps, source=str(f), op='ReferenceNames',
                     expected=repr(b2)[:300], observed=repr(r2)[:300])


# ---------------------------------------------------------------- graph families
def pair_world(acls, ncls, placement, shape):
    nsx, nsy, req = {'same': ('root/a', 'root/a', 'root/a'), 'cross': ('root/a', 'root/b', 'root/a'),
                     'cross-req-y': ('root/a', 'root/b', 'root/b'), 'third': ('root/a', 'root/b', 'root/c'),
                     'same-b': ('root/b', 'root/b', 'root/b')}[placement]
    w = World('pair/%s/%s-%s/%s/%s' % (acls, ncls[0], ncls[1], placement, shape))
    x = w.node(nsx, ncls[0], 'x')
    y = w.node(nsy, ncls[1], 'y')
    r1, r2 = ROLES[acls][:2]
    w.assoc(acls, req, [(r1, x), (r2, y)])
    if shape == 'both':
        w.assoc(acls, req, [(r1, y), (r2, x)])
    elif shape == 'self':
        w.assoc(acls, nsx if acls == 'A_BinImp' else req, [(r1, x), (r2, x)])
    elif shape == 'fan':
        z = w.node(nsy, ncls[1], 'z')
        w.assoc(acls, req, [(r1, x), (r2, z)])
    return w


PAIR_A = ('A_Bin', 'A_BinSub', 'A_BinImp', 'A_Loose', 'A_LooseSub')
PAIR_N = (('N_Base', 'N_Base'), ('N_Base', 'N_Sub'), ('N_Sub', 'N_SubSub'), ('N_SubSub', 'N_SubSub'))
PAIR_P = ('same', 'cross', 'cross-req-y', 'third', 'same-b')
PAIR_S = ('single', 'both', 'self', 'fan')


def pair_star(spec):
    """Number of factors in which the pair graph differs from the base graph."""
    a, n, p, s = spec
    return sum((a != PAIR_A[0], n != PAIR_N[1], p != PAIR_P[0], s != PAIR_S[0]))


def pair_specs(full):
    specs = []
    for a, n, p, s in itertools.product(PAIR_A, PAIR_N, PAIR_P, PAIR_S):
        star = pair_star((a, n, p, s))
        if a == 'A_BinImp' and p not in ('same', 'same-b'):
            continue        # cross-namespace use of the inherited-qualifier class: dedicated family below
        if full or star <= 1 or (star == 2 and p == 'cross' and (a == 'A_Loose' or s == 'self')):
            specs.append((a, n, p, s))
    return specs


def special_worlds():
    out = []
    # mixed + ternary, all in one namespace
    w = World('tern/same')
    x, y, z = w.node('root/a', 'N_Base', 'x'), w.node('root/a', 'N_Sub', 'y'), w.node('root/a', 'N_SubSub', 'z')
    o, o2 = w.node('root/a', 'N_Other', 'o'), w.node('root/a', 'N_Other', 'o2')
    w.assoc('A_Tern', 'root/a', [('First', x), ('Second', y), ('Third', o)])
    w.assoc('A_Tern', 'root/a', [('First', y), ('Second', y), ('Third', o2)])    # same object at two ends
    w.assoc('A_Mixed', 'root/a', [('Left', z), ('Right', o)])
    out.append(w)
    # ternary over three namespaces
    w = World('tern/three-namespaces')
    x, y, o = w.node('root/a', 'N_Base', 'x'), w.node('root/b', 'N_Sub', 'y'), w.node('root/c', 'N_Other', 'o')
    w.assoc('A_Tern', 'root/a', [('First', x), ('Second', y), ('Third', o)])
    w.assoc('A_Tern', 'root/c', [('First', y), ('Second', x), ('Third', o)])
    out.append(w)
    # several association classes between the same pair
    w = World('multi-edge')
    x, y = w.node('root/a', 'N_Base', 'x'), w.node('root/a', 'N_Sub', 'y')
    w.assoc('A_Bin', 'root/a', [('Ante', x), ('Dep', y)])
    w.assoc('A_BinSub', 'root/a', [('Ante', y), ('Dep', x)])
    w.assoc('A_Loose', 'root/a', [('Src', x), ('Dst', y)])
    w.assoc('A_BinImp', 'root/a', [('Ante', x), ('Dep', x)])
    out.append(w)
    # same Id in different classes and namespaces must not be confused
    w = World('same-ids')
    x1, x2, x3 = w.node('root/a', 'N_Base', 'x'), w.node('root/a', 'N_Sub', 'x'), w.node('root/b', 'N_Base', 'x')
    o = w.node('root/a', 'N_Other', 'x')
    w.assoc('A_Bin', 'root/a', [('Ante', x1), ('Dep', x2)])
    w.assoc('A_Bin', 'root/a', [('Ante', x3), ('Dep', x1)])
    w.assoc('A_Mixed', 'root/b', [('Left', x3), ('Right', o)])
    out.append(w)
    # non-key ternary without NULL ends, through add_cimobjects and CreateInstance
    w = World('loose3')
    x, y, o = w.node('root/a', 'N_Base', 'x'), w.node('root/a', 'N_SubSub', 'y'), w.node('root/a', 'N_Other', 'o')
    w.assoc('A_Loose3', 'root/a', [('P1', x), ('P2', y), ('P3', o)], via='add')
    w.assoc('A_Loose3', 'root/a', [('P1', y), ('P2', y), ('P3', o)])
    w.assoc('A_LooseSub', 'root/a', [('Src', x), ('Dst', x)], via='add')
    out.append(w)
    # no association instances at all
    w = World('empty')
    w.node('root/a', 'N_Base', 'x')
    w.node('root/b', 'N_Other', 'o')
    out.append(w)
    return out


def null_worlds():
    out = []
    w = World('null/binary')
    x, y = w.node('root/a', 'N_Base', 'x'), w.node('root/a', 'N_Sub', 'y')
    w.assoc('A_Loose', 'root/a', [('Src', x), ('Dst', None)], via='add')
    w.assoc('A_Bin', 'root/a', [('Ante', x), ('Dep', y)])
    out.append(w)
    w = World('null/ternary')
    x, y, o = w.node('root/a', 'N_Base', 'x'), w.node('root/a', 'N_Sub', 'y'), w.node('root/a', 'N_Other', 'o')
    w.assoc('A_Loose3', 'root/a', [('P1', x), ('P2', None), ('P3', o)], via='add')
    w.assoc('A_Loose3', 'root/a', [('P1', None), ('P2', None), ('P3', None)], via='add')
    out.append(w)
    # NULL end stored in another namespace than the one traversed
    w = World('null/other-namespace')
    x, y, b = w.node('root/a', 'N_Base', 'x'), w.node('root/a', 'N_Sub', 'y'), w.node('root/b', 'N_Base', 'b')
    w.assoc('A_Loose', 'root/b', [('Src', None), ('Dst', b)], via='add')
    w.assoc('A_Loose', 'root/a', [('Src', x), ('Dst', y)])
    out.append(w)
    return out


def dangling_worlds():
    out = []
    w = World('dangling/binary')
    x, y, z = w.node('root/a', 'N_Base', 'x'), w.node('root/a', 'N_Sub', 'y'), w.node('root/a', 'N_Base', 'z')
    w.assoc('A_Bin', 'root/a', [('Ante', x), ('Dep', y)])
    w.assoc('A_Bin', 'root/a', [('Ante', x), ('Dep', z)])
    w.delete_node(y)
    out.append(w)
    w = World('dangling/cross-namespace')
    x, y = w.node('root/a', 'N_Base', 'x'), w.node('root/b', 'N_Base', 'y')
    w.assoc('A_Loose', 'root/a', [('Src', x), ('Dst', y)])
    w.delete_node(y)
    out.append(w)
    return out


def imp_cross_worlds():
    out = []
    for req in ('root/a', 'root/b', 'root/c'):
        w = World('inherited-qualifier/cross/req-' + req[-1])
        x, y = w.node('root/a', 'N_Base', 'x'), w.node('root/b', 'N_Sub', 'y')
        w.assoc('A_BinImp', req, [('Ante', x), ('Dep', y)])
        w.assoc('A_Bin', 'root/a', [('Ante', y), ('Dep', x)])
        out.append(w)
    return out


def random_world(name, rnd, n_nodes, n_assocs, nss):
    w = World(name)
    base, other = [], []
    for i in range(n_nodes):
        ns = nss[i % len(nss)] if i < len(nss) else rnd.choice(nss)
        if i % 4 == 3:
            other.append(w.node(ns, 'N_Other', 'o%d' % i))
        else:
            base.append(w.node(ns, rnd.choice(('N_Base', 'N_Base', 'N_Sub', 'N_SubSub')), 'n%d' % i))
    seen = set()
    tries = 0
    while len(seen) < n_assocs and tries < 20 * n_assocs:
        tries += 1
        cls = rnd.choice(('A_Bin', 'A_Bin', 'A_BinSub', 'A_BinImp', 'A_Mixed', 'A_Tern', 'A_Loose', 'A_LooseSub',
                          'A_Loose3'))
        ends = [(r, rnd.choice(base if ROLE_TYPE[r] == 'N_Base' else other)) for r in ROLES[cls]]
        enss = {e[0] for _, e in ends}
        if cls == 'A_BinImp' and len(enss) > 1:
            continue
        req = rnd.choice(sorted(enss))
        sig = (cls, tuple(ends)) if cls not in ID_KEYED else (cls, tuple(ends), len(seen))
        if sig in seen:
            continue
        seen.add(sig)
        w.assoc(cls, req, ends)
    return w


def mutation_sequences(rnd, quick):
    """create A_Loose(Src=e1,Dst=e2) ; modify one end to e3 (through the copy in a chosen namespace) ; delete."""
    specs = []
    names = ('a1', 'a2', 'b1', 'b2', 'c1')
    for e1, e2, e3 in itertools.product(names, repeat=3):
        for role in ('Src', 'Dst'):
            if e3 == (e1 if role == 'Src' else e2):
                continue
            specs.append((e1, e2, e3, role))
    if quick:
        core = [s for s in specs if s[:2] in (('a1', 'b1'), ('a1', 'a2')) and s[3] == 'Dst']
        rest = [s for s in specs if s not in core]
        specs = core + rnd.sample(rest, 6)
    for e1, e2, e3, role in specs:
        w = World('mutate/%s-%s/%s=%s' % (e1, e2, role, e3))
        nd = {}
        for nm in names:
            nd[nm] = w.node('root/' + nm[0], 'N_Sub' if nm[1] == '2' else 'N_Base', nm)
        req = nd[e1][0]
        w.assoc('A_Bin', 'root/a', [('Ante', nd['a1']), ('Dep', nd['b2'])])       # bystander
        aid = w.assoc('A_Loose', req, [('Src', nd[e1]), ('Dst', nd[e2])])
        check_store(w)
        w.modify(aid, req, role, nd[e3])
        explore(w, 'singles', rnd, nsample=4, variants=0, node_sources_only=True, light_refs=True)
        w.obs.clear()
        w.delete_assoc(aid, req)
        explore(w, 'singles', rnd, nsample=0, variants=0, node_sources_only=True, light_refs=True)


# ---------------------------------------------------------------- class level
def class_level(rnd, quick):
    w = World('class-level')
    c = w.conn
    ac = [None] + sorted(c for c in PARENT if c[0] == 'A') + ['a_bIN', 'N_Base', 'A_Nope']
    rc = [None, 'N_Base', 'N_Sub', 'N_SubSub', 'N_Other', 'n_sUB', 'A_Bin', 'N_Nope']
    ro = [None] + sorted(ROLE_TYPE)[::2 if quick else 1] + ['aNTE', 'THIRD', 'Nope']
    uni = (ac, rc, ro, ro)
    tuples = [(None,) * 4]
    for i in range(4):
        for v in uni[i][1:]:
            t = [None] * 4
            t[i] = v
            tuples.append(tuple(t))
    for i, j in itertools.combinations(range(4), 2):
        for v in uni[i][1:]:
            for x in uni[j][1:]:
                if quick and (i, j) != (0, 1) and rnd.random() > 0.04:
                    continue
                t = [None] * 4
                t[i], t[j] = v, x
                tuples.append(tuple(t))
    seen = set(tuples)
    for _ in range(30 if quick else 300):
        t = tuple(rnd.choice(u) for u in uni)
        if t not in seen:
            seen.add(t)
            tuples.append(t)
    targets = sorted(PARENT)[::2 if quick else 1] + ['n_sUBsUB', 'N_Nope']

    def cnames(r, tup):
        if r[0] != 'ok':
            return r
        out = []
        for o in r[1]:
            p = o[0] if tup else o
            if tup and not (isinstance(o, tuple) and isinstance(o[0], CIMClassName) and isinstance(o[1], CIMClass)
                            and o[1].classname == o[0].classname):
                return ('bad', repr(o)[:200])
            if not isinstance(p, CIMClassName):
                return ('bad', repr(o)[:200])
            out.append((p.classname, (p.namespace or '').lower(), p.host))
        return ('ok', sorted(out))
    for tgt in targets:
        cache = {}
        for flt in tuples:
            R.case(('class', tgt, flt))
            kw = {k: v for k, v in zip(('AssocClass', 'ResultClass', 'Role', 'ResultRole'), flt) if v is not None}
            n = cnames(call(c.AssociatorNames, tgt, **kw), False)
            f = cnames(call(c.Associators, tgt, **kw), True)
            d = dict(target_class=tgt, AssocClass=flt[0], ResultClass=flt[1], Role=flt[2], ResultRole=flt[3])
            if n[0] in ('exc', 'bad') or f[0] in ('exc', 'bad'):
                viol('class-level-associators-raises-or-wrong-kind', observed=[repr(n)[:200], repr(f)[:200]], **d)
            elif n != f:
                viol('class-level-associators-names-differ-from-full', names=repr(n)[:300], full=repr(f)[:300], **d)
            elif n[0] == 'ok':
                cache[flt] = {x[0].lower() for x in n[1]}
                if any(not exists(x[0]) or x[1] != 'root/a' or x[2] != c.host for x in n[1]):
                    viol('class-level-associators-returns-unknown-class-or-wrong-namespace', names=repr(n)[:300], **d)
                for i in range(4):
                    weaker = flt[:i] + (None,) + flt[i + 1:]
                    if flt[i] is not None and weaker in cache and not cache[flt] <= cache[weaker]:
                        viol('class-level-filter-adds-results', weaker=weaker, **d)
            elif n[0] == 'cimerror' and exists(tgt) and all(v is None or exists(v) for v in flt[:2]):
                viol('class-level-associators-refused', observed=repr(n), **d)
        for rcv in ac:
            for role in ro:
                class_refs(c, tgt, {k: v for k, v in (('ResultClass', rcv), ('Role', role)) if v is not None}, cnames)


REFS_SEEN = {}


def class_refs(c, tgt, kw, cnames):
    key = (tgt, kw.get('ResultClass'), kw.get('Role'))
    if key in REFS_SEEN:
        return
    R.case(('class-refs',) + key)
    n = cnames(call(c.ReferenceNames, tgt, **kw), False)
    f = cnames(call(c.References, tgt, **kw), True)
    REFS_SEEN[key] = {x[0] for x in n[1]} if n[0] == 'ok' else None
    d = dict(target_class=tgt, **kw)
    if n[0] in ('exc', 'bad') or f[0] in ('exc', 'bad'):
        viol('class-level-references-raises-or-wrong-kind', observed=[repr(n)[:200], repr(f)[:200]], **d)
    elif n != f:
        viol('class-level-references-names-differ-from-full', names=repr(n)[:300], full=repr(f)[:300], **d)
    elif n[0] == 'ok':
        if any(not exists(x[0]) or x[1] != 'root/a' or x[2] != c.host for x in n[1]):
            viol('class-level-references-returns-unknown-class-or-wrong-namespace', names=repr(n)[:300], **d)
        for weaker in ((tgt, None, key[2]), (tgt, key[1], None)):
            w = REFS_SEEN.get(weaker)
            if w is not None and not REFS_SEEN[key] <= w:
                viol('class-level-filter-adds-results', op='ReferenceNames', **d)
    elif n[0] == 'cimerror' and exists(tgt) and (key[1] is None or exists(key[1])):
        viol('class-level-references-refused', observed=repr(n), **d)


# ---------------------------------------------------------------- main
def main():
    rnd = random.Random(R.seed)
    quick = R.tier == 'quick'
    core_full = {('A_Bin', ('N_Base', 'N_Sub'), 'same', 'single'), ('A_Bin', ('N_Base', 'N_Sub'), 'cross', 'both'),
                 ('A_BinSub', ('N_Sub', 'N_SubSub'), 'same', 'self'), ('A_Loose', ('N_Base', 'N_Base'), 'cross', 'fan'),
                 ('A_LooseSub', ('N_Base', 'N_Sub'), 'third', 'single'),
                 ('A_BinImp', ('N_Base', 'N_Sub'), 'same', 'both')}
    for spec in pair_specs(full=not quick):
        w = pair_world(*spec)
        if not quick and spec in core_full:
            explore(w, 'full', rnd, nsample=0, variants=4, light_sources=('root/b:N_Sub.Id=z', 'root/a:N_Sub.Id=z',
                                                                          'root/a:N_Base.Id=z', 'root/b:N_Base.Id=z'))
        elif quick or pair_star(spec) <= 2:
            explore(w, 'pairs', rnd, nsample=6 if quick else 10, variants=1)
        else:
            explore(w, 'singles', rnd, nsample=40, variants=1)
    for w in special_worlds():
        explore(w, 'pairs' if not quick else 'singles', rnd, nsample=60 if quick else 150, variants=2)
    for w in null_worlds() + dangling_worlds() + imp_cross_worlds():
        explore(w, 'singles' if quick else 'pairs', rnd, nsample=10 if quick else 40, variants=1)
    mutation_sequences(rnd, quick)
    for i in range(2 if quick else 5):
        n = rnd.randint(6, 12)
        w = random_world('random/%d' % i, rnd, n, rnd.randint(n // 2, 2 * n), NSS[:rnd.randint(1, 3)])
        explore(w, 'sparse' if quick else 'singles', rnd, nsample=6 if quick else 60, variants=1,
                node_sources_only=quick, light_refs=True)
    w = random_world('random/30-nodes', rnd, 30, 45, NSS)
    explore(w, 'sparse', rnd, nsample=2 if quick else 15, variants=0 if quick else 1, node_sources_only=True)
    class_level(rnd, quick)
    for vid in sorted(PENDING, key=lambda v: (v.startswith('known:'), v)):
        R.violation(vid, **PENDING[vid])
    R.finish()


main()
