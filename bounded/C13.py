"""Bounded stand-in for C13: association traversal of the mock repository against an independent
reference model (hand-written class hierarchy + book-kept association records, set comprehension)."""
import itertools
import random
import warnings
from bounded.common import Run
from pywbem import CIMInstance, CIMInstanceName, CIMProperty, CIMError, CIMClassName, CIMClass, CIMQualifier, \
    CIMQualifierDeclaration
from pywbem_mock import FakedWBEMConnection

warnings.simplefilter('ignore')

R = Run('association graphs over 12 classes (binary/ternary, key/non-key refs, sub-associations with restated and '
        'inherited Association qualifier) in 3 namespaces: all 2-node pair graphs (5 assoc classes x 4 end-class '
        'pairs x 5 namespace placements x 4 shapes; quick: those differing from the base graph in <= 1 factor + '
        'some cross-namespace 2-factor ones), mixed/ternary/multi-edge/same-id graphs, seeded random graphs of '
        '6..12 nodes and one 30-node graph, NULL ends, dangling ends, create/modify/delete sequences of a non-key '
        'association over 5 nodes in 3 namespaces (quick: 14 of 200); every node, every association instance and a '
        'missing object as source x all (ResultClass, Role) and all filter tuples with <= 2 of the 4 associator '
        'filters set (+ seeded 3/4-filter tuples; thorough: full product on 6 core graphs; random graphs: seeded '
        'tuples only), values = related/unrelated/differently-cased/non-existing names; Open/Pull and Iter '
        'variants; class level: 14 target names x filter tuples with <= 2 filters set + seeded deeper ones; '
        'HISTORIES on one connection against a model of what is stored (classes with superclass links per namespace, '
        'instances with reference values), a query round after every change, every round re-asking one matrix fixed '
        'per history (quick: seeded sample that always holds the class names whose subtrees change, 6 sources incl. '
        'those just touched; thorough: all single filters + seeded pairs/deeper on all sources, full <=2-filter matrix '
        'in the CreateClass history), instance level + class level (2 readings: inherited qualifier, per-end-pair) + '
        'Open/Pull/Iter + symmetry + same query twice (equal, no shared objects, spoiling the first answer changes '
        'nothing): subclass of association/result/endpoint class added, populated, deleted and re-created elsewhere '
        'in the tree through each of CreateClass / add_cimobjects / compile_mof_string (3 histories, 2 namespaces '
        'with the same names at other places in the tree); 4 namespaces with same-named classes in 2 different trees, '
        'namespaces removed and re-added with the other tree; instances written through the 3 ways, reference values '
        'modified, paths reused; ModifyClass directly and through MOF redefinition; seeded random histories over 11 '
        'kinds of change + refused operations and failed batches (quick 2 x 7 steps, thorough 8 x 25); REFUSED '
        'operations between the rounds, the model ignoring them (70 kinds: CreateInstance / add_cimobjects / '
        'compile_mof_string of one instance with an existing key (one namespace; cross-namespace with the key taken in '
        'the request namespace only / a far-end namespace only / one of two far-end namespaces; again through the '
        'other copy), missing/hosted/namespace-less reference targets, class missing in the far-end namespace, '
        'undeclared properties, missing keys, wrong types, missing class/namespace; ModifyInstance of a missing '
        'instance, of keys, with an end moved to a namespace without the class / without a copy / to a missing target '
        '/ to NULL, a valid change followed by an invalid one, through the other copy; DeleteInstance of missing '
        'objects; CreateClass/ModifyClass/DeleteClass/DeleteQualifier/add_namespace/remove_namespace refusals through '
        'the 3 ways), a round after each (quick: after the cross-namespace and multi-change kinds and a fifth of the '
        'others, store comparison after the rest; thorough: after each, two sweeps), failed add_cimobjects / '
        'compile_mof_string batches with the invalid element at each of 3 positions (prefix booked as applied, as '
        'recorded under C11); probes: MOF redefinition in a non-default namespace, MOF instance after class change, '
        'delete through an end namespace')

NSS = ('root/a', 'root/b', 'root/c')
MOF = '''
Qualifier Association : boolean = false, Scope(association), Flavor(DisableOverride, ToSubclass);
Qualifier Key : boolean = false, Scope(property, reference), Flavor(DisableOverride, ToSubclass);
class N_Base { [Key] string Id; };
class N_Sub : N_Base { uint32 X; };
class N_SubSub : N_Sub { };
class N_Other { [Key] string Id; };
[Association] class A_Bin { [Key] N_Base REF Ante; [Key] N_Base REF Dep; };
[Association] class A_BinSub : A_Bin { string Extra; };
class A_BinImp : A_Bin { };
[Association] class A_Mixed { [Key] N_Base REF Left; [Key] N_Other REF Right; };
[Association] class A_Tern { [Key] N_Base REF First; [Key] N_Base REF Second; [Key] N_Other REF Third; };
[Association] class A_Loose { [Key] string Id; N_Base REF Src; N_Base REF Dst; };
[Association] class A_LooseSub : A_Loose { };
[Association] class A_Loose3 { [Key] string Id; N_Base REF P1; N_Base REF P2; N_Other REF P3; };
'''

# ---------------------------------------------------------------- reference model (independent of pywbem)
PARENT = {'N_Base': None, 'N_Sub': 'N_Base', 'N_SubSub': 'N_Sub', 'N_Other': None,
          'A_Bin': None, 'A_BinSub': 'A_Bin', 'A_BinImp': 'A_Bin', 'A_Mixed': None, 'A_Tern': None,
          'A_Loose': None, 'A_LooseSub': 'A_Loose', 'A_Loose3': None}
CANON = {c.lower(): c for c in PARENT}
ROLES = {'A_Bin': ('Ante', 'Dep'), 'A_BinSub': ('Ante', 'Dep'), 'A_BinImp': ('Ante', 'Dep'),
         'A_Mixed': ('Left', 'Right'), 'A_Tern': ('First', 'Second', 'Third'),
         'A_Loose': ('Src', 'Dst'), 'A_LooseSub': ('Src', 'Dst'), 'A_Loose3': ('P1', 'P2', 'P3')}
ROLE_TYPE = {'Ante': 'N_Base', 'Dep': 'N_Base', 'Left': 'N_Base', 'Right': 'N_Other', 'First': 'N_Base',
             'Second': 'N_Base', 'Third': 'N_Other', 'Src': 'N_Base', 'Dst': 'N_Base', 'P1': 'N_Base',
             'P2': 'N_Base', 'P3': 'N_Other'}
ID_KEYED = ('A_Loose', 'A_LooseSub', 'A_Loose3')
TOP_ASSOC = ('A_Bin', 'A_Mixed', 'A_Tern', 'A_Loose', 'A_Loose3')
INVALID = 'INVALID'     # expectation for a class filter naming a class that does not exist
K_HOST = 'known:associators-instance-paths-lack-host'
K_NULL = 'known:null-reference-end-TypeError'
K_DANGLING = 'known:dangling-end-associators-NOT_FOUND'
K_IMP = 'known:inherited-association-qualifier-no-shadow'
K_STALE = 'known:modify-assoc-leaves-stale-shadow'


def exists(cls):
    return cls.lower() in CANON


def is_a(cls, anc):
    c, a = CANON[cls.lower()], CANON[anc.lower()]
    while c:
        if c == a:
            return True
        c = PARENT[c]
    return False


def children(cls):
    return [c for c, p in PARENT.items() if p == cls]


def nodekey(n):
    return (n[0], n[1].lower(), (('id', n[2]),))


class Rec:
    def __init__(self, cls, aid, ends):
        self.cls, self.aid, self.ends = cls, aid, tuple(ends)

    def key(self, ns):
        if self.cls in ID_KEYED:
            return (ns, self.cls.lower(), (('id', self.aid),))
        return (ns, self.cls.lower(), tuple(sorted((r.lower(), nodekey(e)) for r, e in self.ends)))

    def end_nss(self):
        return {e[0] for _, e in self.ends if e is not None}


def srt(keys):
    return sorted(keys, key=repr)


def model_refs(store, xk, rc, role):
    if rc is not None and not exists(rc):
        return INVALID
    out = []
    for rec in store[xk[0]].values():
        if rc is not None and not is_a(rec.cls, rc):
            continue
        if any(e is not None and nodekey(e) == xk and (role is None or r.lower() == role.lower())
               for r, e in rec.ends):
            out.append(rec.key(xk[0]))
    return srt(out)


def model_assocs(store, xk, ac, rc, role, rrole):
    if (ac is not None and not exists(ac)) or (rc is not None and not exists(rc)):
        return INVALID
    out = set()
    for rec in store[xk[0]].values():
        if ac is not None and not is_a(rec.cls, ac):
            continue
        for i, (r1, e1) in enumerate(rec.ends):
            if e1 is None or nodekey(e1) != xk or (role is not None and r1.lower() != role.lower()):
                continue
            for j, (r2, e2) in enumerate(rec.ends):
                if i == j or e2 is None or nodekey(e2) == xk:
                    continue
                if rrole is not None and r2.lower() != rrole.lower():
                    continue
                if rc is not None and not is_a(e2[1], rc):
                    continue
                out.add(nodekey(e2))
    return srt(out)


# ---------------------------------------------------------------- observation helpers
def kval(v):
    return kpath(v) if isinstance(v, CIMInstanceName) else v


def kpath(p):
    return ((p.namespace or '').lower(), p.classname.lower(),
            tuple(sorted((k.lower(), kval(v)) for k, v in p.keybindings.items())))


def call(f, *a, **k):
    try:
        return ('ok', f(*a, **k))
    except CIMError as e:
        return ('cimerror', e.status_code)
    except Exception as e:  # noqa
        return ('exc', type(e).__name__, str(e)[:100])


PENDING = {}


def viol(vid, **d):
    if vid not in PENDING:
        PENDING[vid] = d


def swapcase_first(s):
    return s[0].swapcase() + s[1:-1] + s[-1].swapcase()


TEMPLATE = []


def new_conn(pull):
    if not TEMPLATE:
        t = FakedWBEMConnection(default_namespace='root/a')
        t.compile_mof_string(MOF, namespace='root/a')
        classes = t.EnumerateClasses(DeepInheritance=True, LocalOnly=True, IncludeQualifiers=True)

        def depth(c):
            d, n = 0, c.classname
            while PARENT[n]:
                d, n = d + 1, PARENT[n]
            return d
        TEMPLATE.extend(t.EnumerateQualifiers())
        TEMPLATE.extend(sorted(classes, key=depth))
        assert {c.classname for c in classes} == set(PARENT)
    c = FakedWBEMConnection(default_namespace='root/a', use_pull_operations=pull)
    for ns in NSS:
        if ns != 'root/a':
            c.add_namespace(ns)
        c.add_cimobjects(TEMPLATE, namespace=ns)
    return c


def ipath(n):
    return CIMInstanceName(n[1], {'Id': n[2]}, namespace=n[0])


class World:
    count = 0

    def __init__(self, name):
        World.count += 1
        self.name = name
        self.conn = new_conn(None if World.count % 2 else False)
        self.steps = []
        self.nodes = []
        self.ideal = {ns: {} for ns in NSS}
        self.alt = {ns: {} for ns in NSS}       # predicted behaviour of the two known shadow defects
        self.alt_id = None
        self.null_ns = set()
        self.dangling = set()
        self.seq = 0
        self.obs = {}

    # -- building
    def node(self, ns, cls, nid):
        n = (ns, cls, nid)
        self.steps.append('CreateInstance %s %s.Id=%s' % n)
        p = self.conn.CreateInstance(CIMInstance(cls, properties={'Id': nid}), namespace=ns)
        if kpath(p) != nodekey(n):
            viol('create-returned-path-differs', steps=self.steps, observed=str(p))
        self.nodes.append(n)
        return n

    def _diverged(self, vid):
        # Rec objects are shared between the two stores, so dict comparison is by identity of the records
        if self.alt != self.ideal:
            self.alt_id = self.alt_id or vid

    def assoc(self, cls, req, ends, via='create'):
        """ends: list of (role, node|None). Returns the association id (key into the model stores)."""
        self.seq += 1
        aid = 'as%d' % self.seq
        rec = Rec(cls, aid, ends)
        self.steps.append('%s %s in %s %s' % (via, cls, req, ' '.join(
            '%s=%s' % (r, 'NULL' if e is None else '%s:%s.Id=%s' % e) for r, e in ends)))
        if via == 'create':
            props = {r: ipath(e) for r, e in ends}
            if cls in ID_KEYED:
                props['Id'] = aid
            p = self.conn.CreateInstance(CIMInstance(cls, properties=props), namespace=req)
            if kpath(p) != rec.key(req):
                viol('create-returned-path-differs', steps=self.steps, observed=str(p))
            for ns in {req} | rec.end_nss():
                self.ideal[ns][aid] = rec
            for ns in ({req} if cls == 'A_BinImp' else {req} | rec.end_nss()):
                self.alt[ns][aid] = rec
            self._diverged(K_IMP)
        else:
            assert cls in ID_KEYED and rec.end_nss() <= {req}
            props = [CIMProperty('Id', aid)] + [
                CIMProperty(r, None if e is None else ipath(e), type='reference', reference_class=ROLE_TYPE[r])
                for r, e in ends]
            self.conn.add_cimobjects(CIMInstance(cls, properties=props,
                                                 path=CIMInstanceName(cls, {'Id': aid}, namespace=req)),
                                     namespace=req)
            self.ideal[req][aid] = rec
            self.alt[req][aid] = rec
            if any(e is None for _, e in ends):
                self.null_ns.add(req)
        return aid

    def modify(self, aid, m, role, new):
        old = self.ideal[m][aid]
        rec = Rec(old.cls, aid, [(r, new if r == role else e) for r, e in old.ends])
        self.steps.append('ModifyInstance %s.Id=%s in %s: %s=%s:%s.Id=%s' % ((old.cls, aid, m, role) + new))
        r = call(self.conn.ModifyInstance, CIMInstance(old.cls, properties={role: ipath(new)},
                                                       path=CIMInstanceName(old.cls, {'Id': aid}, namespace=m)))
        self.steps[-1] += ' -> %s' % (r[0] if r[0] == 'ok' else repr(r[1:]))
        if r[0] == 'exc':
            viol('modify-raises-' + r[1], steps=self.steps)
        if r[0] != 'ok':
            return False    # refused: the repository must be unchanged (checked by the traversal afterwards)
        s_new = {m} | rec.end_nss()
        for ns in NSS:
            if ns in s_new:
                self.ideal[ns][aid] = rec
                self.alt[ns][aid] = rec
            else:
                self.ideal[ns].pop(aid, None)
        self._diverged(K_STALE)
        return True

    def delete_assoc(self, aid, m):
        rec = self.ideal[m][aid]
        self.steps.append('DeleteInstance %s %s in %s' % (rec.cls, aid, m))
        p = CIMInstanceName(rec.cls, {'Id': aid}, namespace=m) if rec.cls in ID_KEYED else \
            CIMInstanceName(rec.cls, {r: ipath(e) for r, e in rec.ends}, namespace=m)
        r = call(self.conn.DeleteInstance, p)
        if r[0] != 'ok':
            viol('delete-association-fails', steps=self.steps, observed=repr(r))
            return
        arec = self.alt[m].get(aid, rec)
        for ns in NSS:
            self.ideal[ns].pop(aid, None)
        for ns in ({m} | arec.end_nss() if arec.cls != 'A_BinImp' else {m}):
            self.alt[ns].pop(aid, None)
        self._diverged(K_STALE)

    def delete_node(self, n):
        self.steps.append('DeleteInstance %s %s.Id=%s' % n)
        self.conn.DeleteInstance(ipath(n))
        self.dangling.add(nodekey(n))

    # -- filter universes relevant for this world
    def universes(self):
        acls, ncls = [], []
        for ns in NSS:
            for rec in self.ideal[ns].values():
                if rec.cls not in acls:
                    acls.append(rec.cls)
        for n in self.nodes:
            if n[1] not in ncls:
                ncls.append(n[1])

        def fam(used):
            out = []
            for c in used:
                for d in [c, PARENT[c]] + children(c)[:1]:
                    if d and d not in out:
                        out.append(d)
            return out
        afam, nfam = fam(acls), fam(ncls)
        ac = [None] + afam + [swapcase_first(c) for c in acls[:2]] + ['N_Base', 'A_Nope']
        if len(afam) < 4:
            ac.append('A_Mixed' if 'A_Mixed' not in afam else 'A_Tern')
        rc = [None] + nfam + [swapcase_first(c) for c in ncls[:2]] + ['A_Bin', 'N_Nope']
        if 'N_Other' not in nfam:
            rc.append('N_Other')
        roles = []
        for c in acls:
            for r in ROLES[c]:
                if r not in roles:
                    roles.append(r)
        ro = [None] + roles + [swapcase_first(roles[0]), roles[-1].upper()] + ['Nope'] if roles else [None, 'Ante', 'Nope']
        return ac, rc, ro

    def sources(self):
        out = [('%s:%s.Id=%s' % n, ipath(n), nodekey(n)) for n in self.nodes]
        seen = set()
        for ns in NSS:
            for rec in self.ideal[ns].values():
                k = rec.key(ns)
                if k in seen:
                    continue
                seen.add(k)
                if rec.cls in ID_KEYED:
                    p = CIMInstanceName(rec.cls, {'Id': rec.aid}, namespace=ns)
                elif all(e is not None for _, e in rec.ends):
                    p = CIMInstanceName(rec.cls, {r: ipath(e) for r, e in rec.ends}, namespace=ns)
                else:
                    continue
                out.append(('assoc %s %s in %s' % (rec.cls, rec.aid, ns), p, k))
        missing = ('root/a', 'N_Base', 'missing')
        out.append(('missing root/a:N_Base.Id=missing', ipath(missing), nodekey(missing)))
        return out


# ---------------------------------------------------------------- checks
def expect(world, fn, *args):
    return fn(world.ideal, *args), fn(world.alt, *args)


def classify(world, generic, exp, exp_alt, obs, **detail):
    """obs differs from the ideal expectation: attribute to a known shadow defect only if the defect model predicts
    exactly this observation."""
    if world.alt_id and exp_alt != exp and obs == exp_alt:
        viol(world.alt_id, steps=world.steps, expected=repr(exp)[:400], observed=repr(obs)[:400], **detail)
    else:
        viol(generic, steps=world.steps, expected=repr(exp)[:400], observed=repr(obs)[:400], **detail)


def exc_known(world, ns, r):
    return ns in world.null_ns and r[0] == 'exc' and r[1] == 'TypeError'


def check_invalid(world, op, names, full, detail):
    """Class filter names a non-existing class: refused with INVALID_PARAMETER or empty, same for both variants."""
    ok = lambda r: r == ('cimerror', 4) or (r[0] == 'ok' and not r[1])  # noqa
    if not ok(names) or not ok(full):
        viol(op + '-nonexistent-class-filter-not-refused-or-empty', steps=world.steps,
             observed=[repr(names)[:200], repr(full)[:200]], **detail)
    elif names[0] != full[0]:
        viol(op + '-nonexistent-class-filter-names-and-full-disagree', steps=world.steps,
             observed=[repr(names)[:200], repr(full)[:200]], **detail)


def inst_matches_model(world, inst):
    """The full variants return the stored objects: class and property values as book-kept."""
    k = kpath(inst.path)
    for n in world.nodes:
        if nodekey(n) == k:
            return inst.classname.lower() == n[1].lower() and inst.get('Id') == n[2] and \
                set(x.lower() for x in inst.keys()) <= {'id', 'x'}
    for rec in world.ideal.get(k[0], {}).values():
        if rec.key(k[0]) == k:
            if inst.classname.lower() != rec.cls.lower():
                return False
            for r, e in rec.ends:
                v = inst.get(r)
                if (v is None) != (e is None) or (e is not None and kpath(v) != nodekey(e)):
                    return False
            return True
    return None


def check_assoc(world, src, flt, variants=False):
    label, xpath, xk = src
    ac, rc, role, rrole = flt
    R.case((world.name, 'A', label, flt))
    detail = dict(op='Associators/AssociatorNames', source=label, AssocClass=ac, ResultClass=rc, Role=role,
                  ResultRole=rrole)
    kw = {k: v for k, v in zip(('AssocClass', 'ResultClass', 'Role', 'ResultRole'), flt) if v is not None}
    conn = world.conn
    names = call(conn.AssociatorNames, xpath, **kw)
    full = call(conn.Associators, xpath, **kw)
    exp, exp_alt = expect(world, model_assocs, xk, ac, rc, role, rrole)
    world.obs[(label, flt)] = None
    for r in (names, full):
        if r[0] == 'exc':
            viol(K_NULL if exc_known(world, xk[0], r) else 'associators-raises-' + r[1], steps=world.steps,
                 observed=repr(r), **detail)
            return
    if exp == INVALID:
        check_invalid(world, 'associators', names, full, detail)
        return
    if names[0] != 'ok':
        viol('associatornames-fails', steps=world.steps, observed=repr(names), **detail)
        return
    if not all(isinstance(p, CIMInstanceName) for p in names[1]):
        viol('associatornames-returns-non-path', steps=world.steps, observed=repr(names[1])[:300], **detail)
        return
    got = srt(kpath(p) for p in names[1])
    world.obs[(label, flt)] = got
    if got != exp:
        classify(world, 'associatornames-membership-differs', exp, exp_alt, got, **detail)
        return
    if full[0] != 'ok':
        if full == ('cimerror', 6) and set(exp) & world.dangling:
            viol(K_DANGLING, steps=world.steps, names=repr(got)[:300], observed=repr(full), **detail)
        else:
            viol('associators-fails-where-names-succeeds', steps=world.steps, observed=repr(full), **detail)
        return
    if not all(isinstance(i, CIMInstance) and i.path is not None for i in full[1]):
        viol('associators-returns-non-instance-or-no-path', steps=world.steps, **detail)
        return
    gotf = srt(kpath(i.path) for i in full[1])
    if gotf != got:
        viol('associators-paths-differ-from-names', steps=world.steps, names=repr(got)[:300],
             observed=repr(gotf)[:300], **detail)
        return
    for i in full[1]:
        if inst_matches_model(world, i) is not True:
            viol('associators-instance-differs-from-stored', steps=world.steps, observed=i.tomof()[:300], **detail)
    hosts_n = {p.host for p in names[1]}
    hosts_f = {i.path.host for i in full[1]}
    if hosts_n != hosts_f:
        if hosts_n == {conn.host} and hosts_f == {None}:
            viol(K_HOST, steps=world.steps, names_host=conn.host, full_host=None, **detail)
        else:
            viol('associators-path-host-differs-from-names', steps=world.steps, names_hosts=repr(hosts_n),
                 full_hosts=repr(hosts_f), **detail)
    if variants:
        check_variants(world, 'assoc', xpath, kw, got, detail)


def check_refs(world, src, flt, variants=False):
    label, xpath, xk = src
    rc, role = flt
    R.case((world.name, 'R', label, flt))
    detail = dict(op='References/ReferenceNames', source=label, ResultClass=rc, Role=role)
    kw = {k: v for k, v in zip(('ResultClass', 'Role'), flt) if v is not None}
    conn = world.conn
    names = call(conn.ReferenceNames, xpath, **kw)
    full = call(conn.References, xpath, **kw)
    exp, exp_alt = expect(world, model_refs, xk, rc, role)
    world.obs[(label, 'R', flt)] = None
    for r in (names, full):
        if r[0] == 'exc':
            viol(K_NULL if exc_known(world, xk[0], r) else 'references-raises-' + r[1], steps=world.steps,
                 observed=repr(r), **detail)
            return
    if exp == INVALID:
        check_invalid(world, 'references', names, full, detail)
        return
    if names[0] != 'ok' or full[0] != 'ok':
        viol('references-fails', steps=world.steps, observed=[repr(names)[:200], repr(full)[:200]], **detail)
        return
    if not all(isinstance(p, CIMInstanceName) for p in names[1]) or \
            not all(isinstance(i, CIMInstance) and i.path is not None for i in full[1]):
        viol('references-returns-wrong-kind', steps=world.steps, **detail)
        return
    got = srt(kpath(p) for p in names[1])
    world.obs[(label, 'R', flt)] = got
    if got != exp:
        classify(world, 'referencenames-membership-differs', exp, exp_alt, got, **detail)
        return
    gotf = srt(kpath(i.path) for i in full[1])
    if gotf != got:
        viol('references-paths-differ-from-names', steps=world.steps, names=repr(got)[:300],
             observed=repr(gotf)[:300], **detail)
        return
    for i in full[1]:
        if inst_matches_model(world, i) is not True:
            viol('references-instance-differs-from-stored', steps=world.steps, observed=i.tomof()[:300], **detail)
    if {p.host for p in names[1]} != {i.path.host for i in full[1]}:
        viol('references-path-host-differs-from-names', steps=world.steps, **detail)
    if variants:
        check_variants(world, 'ref', xpath, kw, got, detail)


def drain(conn, first, attr, pull):
    items = list(getattr(first, attr))
    r = first
    n = 0
    while not r.eos:
        r = pull(r.context, MaxObjectCount=2)
        items.extend(getattr(r, attr))
        n += 1
        if n > 200:
            raise RuntimeError('pull does not terminate')
    return items


def check_variants(world, kind, xpath, kw, got, detail):
    """Open.../Pull... and Iter... variants deliver the same paths as the (already checked) Names operation."""
    c = world.conn
    if kind == 'assoc':
        ops = [('OpenAssociatorInstancePaths', lambda: drain(c, c.OpenAssociatorInstancePaths(xpath, MaxObjectCount=1, **kw), 'paths', c.PullInstancePaths), False),
               ('OpenAssociatorInstances', lambda: drain(c, c.OpenAssociatorInstances(xpath, MaxObjectCount=1, **kw), 'instances', c.PullInstancesWithPath), True),
               ('IterAssociatorInstancePaths', lambda: list(c.IterAssociatorInstancePaths(xpath, MaxObjectCount=2, **kw)), False),
               ('IterAssociatorInstances', lambda: list(c.IterAssociatorInstances(xpath, MaxObjectCount=2, **kw)), True)]
    else:
        ops = [('OpenReferenceInstancePaths', lambda: drain(c, c.OpenReferenceInstancePaths(xpath, MaxObjectCount=1, **kw), 'paths', c.PullInstancePaths), False),
               ('OpenReferenceInstances', lambda: drain(c, c.OpenReferenceInstances(xpath, MaxObjectCount=1, **kw), 'instances', c.PullInstancesWithPath), True),
               ('IterReferenceInstancePaths', lambda: list(c.IterReferenceInstancePaths(xpath, MaxObjectCount=2, **kw)), False),
               ('IterReferenceInstances', lambda: list(c.IterReferenceInstances(xpath, MaxObjectCount=2, **kw)), True)]
    for name, fn, is_inst in ops:
        R.case((world.name, name, detail['source'], tuple(sorted(kw.items()))))
        r = call(fn)
        d = dict(detail, op=name)
        if r[0] != 'ok':
            viol('pull-or-iter-variant-fails', steps=world.steps, observed=repr(r), **d)
            continue
        try:
            paths = [i.path for i in r[1]] if is_inst else r[1]
            gotv = srt(kpath(p) for p in paths)
        except Exception as e:  # noqa
            viol('pull-or-iter-variant-returns-wrong-kind', steps=world.steps, observed=repr(e), **d)
            continue
        if gotv != got:
            viol('pull-or-iter-variant-differs-from-names', steps=world.steps, names=repr(got)[:300],
                 observed=repr(gotv)[:300], **d)
        elif {p.host for p in paths} - {c.host}:
            if kind == 'assoc' and is_inst and {p.host for p in paths} == {None}:
                viol(K_HOST, steps=world.steps, names_host=c.host, full_host=None, **d)
            else:
                viol('pull-or-iter-variant-path-host-differs', steps=world.steps, **d)


def names_only(world, src, flt):
    """AssociatorNames result for the invariant checks (cached; None if refused/failed)."""
    label, xpath, xk = src
    if (label, flt) not in world.obs:
        kw = {k: v for k, v in zip(('AssocClass', 'ResultClass', 'Role', 'ResultRole'), flt) if v is not None}
        r = call(world.conn.AssociatorNames, xpath, **kw)
        world.obs[(label, flt)] = srt(kpath(p) for p in r[1]) if r[0] == 'ok' else None
    return world.obs[(label, flt)]


def check_monotone(world, src, flts):
    """Adding a filter never adds results (checked on the observed results, no model involved)."""
    for flt in flts:
        got = names_only(world, src, flt)
        if not got:
            continue
        for i in range(4):
            if flt[i] is None:
                continue
            weaker = flt[:i] + (None,) + flt[i + 1:]
            w = names_only(world, src, weaker)
            if w is not None and not set(got) <= set(w):
                viol('filter-adds-results', steps=world.steps, source=src[0], filters=flt, weaker=weaker,
                     observed=repr(got)[:300], weaker_result=repr(w)[:300])


def check_symmetry(world, srcs, flts):
    """y in Assoc(x; ac, -, role, rrole)  <=>  x in Assoc(y; ac, -, rrole, role), on observed results."""
    by_key = {s[2]: s for s in srcs}
    for src in srcs:
        for flt in flts:
            if flt[1] is not None or (src[0], flt) not in world.obs:
                continue
            got = world.obs[(src[0], flt)]
            for yk in got or ():
                ys = by_key.get(yk)
                if ys is None:
                    continue
                back_flt = (flt[0], None, flt[3], flt[2])
                back = names_only(world, ys, back_flt)
                if back is not None and src[2] not in back:
                    xk = src[2]
                    pred = model_assocs(world.alt, yk, *back_flt)
                    if world.alt_id and pred != INVALID and xk not in pred and \
                            yk in model_assocs(world.alt, xk, *flt):
                        viol(world.alt_id, steps=world.steps, source=src[0], filters=flt, associated=ys[0],
                             reverse_filters=back_flt, reverse_result=repr(back)[:300])
                    else:
                        viol('association-not-symmetric', steps=world.steps, source=src[0], filters=flt,
                             associated=ys[0], reverse_filters=back_flt, reverse_result=repr(back)[:300])


def check_store(world):
    """The association instances (incl. cross-namespace shadows) stored per namespace are the book-kept ones."""
    for ns in NSS:
        R.case((world.name, 'store', ns))
        got = []
        for top in TOP_ASSOC:
            r = call(world.conn.EnumerateInstanceNames, top, namespace=ns)
            if r[0] != 'ok':
                if not (ns in world.null_ns):
                    viol('enumerate-association-instances-fails', steps=world.steps, observed=repr(r))
                return
            got.extend(kpath(p) for p in r[1])
        exp = srt(rec.key(ns) for rec in world.ideal[ns].values())
        alt = srt(rec.key(ns) for rec in world.alt[ns].values())
        if srt(got) != exp:
            classify(world, 'stored-association-instances-differ-from-model', exp, alt, srt(got), namespace=ns)


SPARSE_K = 4 if R.tier == 'quick' else 8


def filter_tuples(world, mode, rnd, nsample):
    ac, rc, ro = world.universes()
    uni = (ac, rc, ro, ro)
    if mode == 'full':
        return list(itertools.product(*uni)), uni
    out = [(None, None, None, None)]
    for i in range(4):
        for v in uni[i][1:]:
            t = [None] * 4
            t[i] = v
            out.append(tuple(t))
    if mode == 'sparse':
        out = out[:1] + rnd.sample(out[1:], min(SPARSE_K, len(out) - 1))
    if mode == 'pairs':
        for i, j in itertools.combinations(range(4), 2):
            for v in uni[i][1:]:
                for w in uni[j][1:]:
                    t = [None] * 4
                    t[i], t[j] = v, w
                    out.append(tuple(t))
    seen = set(out)
    for _ in range(nsample):
        k = rnd.choice((2, 3, 3, 4)) if mode == 'singles' else rnd.choice((3, 3, 4))
        pos = rnd.sample(range(4), k)
        t = [None] * 4
        for p in pos:
            t[p] = rnd.choice(uni[p][1:])
        if tuple(t) not in seen:
            seen.add(tuple(t))
            out.append(tuple(t))
    return out, uni


def explore(world, mode, rnd, nsample=12, variants=2, node_sources_only=False, light_sources=(),
            light_refs=False):
    """Check every source of the world. mode: 'full' | 'pairs' | 'singles' | 'sparse' (= no filter + SPARSE_K seeded
    single filters, drawn per source) (+ nsample seeded deeper tuples)."""
    check_store(world)
    srcs = world.sources()
    tuples, uni = filter_tuples(world, mode, rnd, nsample)
    light, _ = filter_tuples(world, 'singles', rnd, 0)
    ref_tuples = list(itertools.product(uni[0], uni[2]))
    all_tuples = list(tuples)
    for src in srcs:
        is_node = src[0][:4] == 'root'
        heavy = is_node and src[0] not in light_sources
        if node_sources_only and not is_node:
            continue
        if mode == 'sparse' and heavy:
            tuples, _ = filter_tuples(world, mode, rnd, nsample)
            all_tuples.extend(tuples)
        tl = tuples if heavy else light
        vset = set([tl[0]] + rnd.sample(tl[1:], min(variants, len(tl) - 1))) if heavy else set()
        for flt in tl:
            check_assoc(world, src, flt, variants=flt in vset)
        rl = ref_tuples if heavy and not light_refs else [t for t in ref_tuples if t[0] is None or t[1] is None]
        if mode == 'sparse':
            rl = rl[:1] + rnd.sample(ref_tuples[1:], min(SPARSE_K, len(ref_tuples) - 1))
        rv = set([rl[0]] + rnd.sample(rl[1:], min(variants, len(rl) - 1))) if heavy else set()
        for flt in rl:
            check_refs(world, src, flt, variants=flt in rv)
        check_monotone(world, src, tl)
        # ReferenceNames monotone as well
        for flt in rl:
            got = world.obs.get((src[0], 'R', flt))
            for weaker in ((None, flt[1]), (flt[0], None)):
                w = world.obs.get((src[0], 'R', weaker))
                if got and w is not None and not set(got) <= set(w):
                    viol('filter-adds-results', steps=world.steps, source=src[0], op='ReferenceNames', filters=flt,
                         weaker=weaker)
    check_symmetry(world, srcs, all_tuples)
    check_source_forms(world, srcs)


def check_source_forms(world, srcs):
    """The same source object named differently (no namespace for the default one, other lexical case)."""
    for label, xpath, xk in srcs:
        if label[:4] != 'root':
            continue
        base = world.obs.get((label, (None, None, None, None)))
        if base is None:
            continue
        forms = [CIMInstanceName(swapcase_first(xpath.classname), {'ID': xpath.keybindings['Id']},
                                 namespace=xpath.namespace.upper())]
        if xpath.namespace == 'root/a':
            forms.append(CIMInstanceName(xpath.classname, {'Id': xpath.keybindings['Id']}))
        for f in forms:
            R.case((world.name, 'form', label, str(f)))
            r = call(world.conn.AssociatorNames, f)
            if r[0] != 'ok' or srt(kpath(p) for p in r[1]) != base:
                viol('source-name-form-changes-result', steps=world.steps, source=str(f), expected=repr(base)[:300],
                     observed=repr(r)[:300])
            r2 = call(world.conn.ReferenceNames, f)
            b2 = world.obs.get((label, 'R', (None, None)))
            if b2 is not None and (r2[0] != 'ok' or srt(kpath(p) for p in r2[1]) != b2):
                viol('source-name-form-changes-result', steps=world.steps, source=str(f), op='ReferenceNames',
                     expected=repr(b2)[:300], observed=repr(r2)[:300])


# ---------------------------------------------------------------- graph families
def pair_world(acls, ncls, placement, shape):
    nsx, nsy, req = {'same': ('root/a', 'root/a', 'root/a'), 'cross': ('root/a', 'root/b', 'root/a'),
                     'cross-req-y': ('root/a', 'root/b', 'root/b'), 'third': ('root/a', 'root/b', 'root/c'),
                     'same-b': ('root/b', 'root/b', 'root/b')}[placement]
    w = World('pair/%s/%s-%s/%s/%s' % (acls, ncls[0], ncls[1], placement, shape))
    x = w.node(nsx, ncls[0], 'x')
    y = w.node(nsy, ncls[1], 'y')
    r1, r2 = ROLES[acls][:2]
    w.assoc(acls, req, [(r1, x), (r2, y)])
    if shape == 'both':
        w.assoc(acls, req, [(r1, y), (r2, x)])
    elif shape == 'self':
        w.assoc(acls, nsx if acls == 'A_BinImp' else req, [(r1, x), (r2, x)])
    elif shape == 'fan':
        z = w.node(nsy, ncls[1], 'z')
        w.assoc(acls, req, [(r1, x), (r2, z)])
    return w


PAIR_A = ('A_Bin', 'A_BinSub', 'A_BinImp', 'A_Loose', 'A_LooseSub')
PAIR_N = (('N_Base', 'N_Base'), ('N_Base', 'N_Sub'), ('N_Sub', 'N_SubSub'), ('N_SubSub', 'N_SubSub'))
PAIR_P = ('same', 'cross', 'cross-req-y', 'third', 'same-b')
PAIR_S = ('single', 'both', 'self', 'fan')


def pair_star(spec):
    """Number of factors in which the pair graph differs from the base graph."""
    a, n, p, s = spec
    return sum((a != PAIR_A[0], n != PAIR_N[1], p != PAIR_P[0], s != PAIR_S[0]))


def pair_specs(full):
    specs = []
    for a, n, p, s in itertools.product(PAIR_A, PAIR_N, PAIR_P, PAIR_S):
        star = pair_star((a, n, p, s))
        if a == 'A_BinImp' and p not in ('same', 'same-b'):
            continue        # cross-namespace use of the inherited-qualifier class: dedicated family below
        if full or star <= 1 or (star == 2 and p == 'cross' and (a == 'A_Loose' or s == 'self')):
            specs.append((a, n, p, s))
    return specs


def special_worlds():
    out = []
    # mixed + ternary, all in one namespace
    w = World('tern/same')
    x, y, z = w.node('root/a', 'N_Base', 'x'), w.node('root/a', 'N_Sub', 'y'), w.node('root/a', 'N_SubSub', 'z')
    o, o2 = w.node('root/a', 'N_Other', 'o'), w.node('root/a', 'N_Other', 'o2')
    w.assoc('A_Tern', 'root/a', [('First', x), ('Second', y), ('Third', o)])
    w.assoc('A_Tern', 'root/a', [('First', y), ('Second', y), ('Third', o2)])    # same object at two ends
    w.assoc('A_Mixed', 'root/a', [('Left', z), ('Right', o)])
    out.append(w)
    # ternary over three namespaces
    w = World('tern/three-namespaces')
    x, y, o = w.node('root/a', 'N_Base', 'x'), w.node('root/b', 'N_Sub', 'y'), w.node('root/c', 'N_Other', 'o')
    w.assoc('A_Tern', 'root/a', [('First', x), ('Second', y), ('Third', o)])
    w.assoc('A_Tern', 'root/c', [('First', y), ('Second', x), ('Third', o)])
    out.append(w)
    # several association classes between the same pair
    w = World('multi-edge')
    x, y = w.node('root/a', 'N_Base', 'x'), w.node('root/a', 'N_Sub', 'y')
    w.assoc('A_Bin', 'root/a', [('Ante', x), ('Dep', y)])
    w.assoc('A_BinSub', 'root/a', [('Ante', y), ('Dep', x)])
    w.assoc('A_Loose', 'root/a', [('Src', x), ('Dst', y)])
    w.assoc('A_BinImp', 'root/a', [('Ante', x), ('Dep', x)])
    out.append(w)
    # same Id in different classes and namespaces must not be confused
    w = World('same-ids')
    x1, x2, x3 = w.node('root/a', 'N_Base', 'x'), w.node('root/a', 'N_Sub', 'x'), w.node('root/b', 'N_Base', 'x')
    o = w.node('root/a', 'N_Other', 'x')
    w.assoc('A_Bin', 'root/a', [('Ante', x1), ('Dep', x2)])
    w.assoc('A_Bin', 'root/a', [('Ante', x3), ('Dep', x1)])
    w.assoc('A_Mixed', 'root/b', [('Left', x3), ('Right', o)])
    out.append(w)
    # non-key ternary without NULL ends, through add_cimobjects and CreateInstance
    w = World('loose3')
    x, y, o = w.node('root/a', 'N_Base', 'x'), w.node('root/a', 'N_SubSub', 'y'), w.node('root/a', 'N_Other', 'o')
    w.assoc('A_Loose3', 'root/a', [('P1', x), ('P2', y), ('P3', o)], via='add')
    w.assoc('A_Loose3', 'root/a', [('P1', y), ('P2', y), ('P3', o)])
    w.assoc('A_LooseSub', 'root/a', [('Src', x), ('Dst', x)], via='add')
    out.append(w)
    # no association instances at all
    w = World('empty')
    w.node('root/a', 'N_Base', 'x')
    w.node('root/b', 'N_Other', 'o')
    out.append(w)
    return out


def null_worlds():
    out = []
    w = World('null/binary')
    x, y = w.node('root/a', 'N_Base', 'x'), w.node('root/a', 'N_Sub', 'y')
    w.assoc('A_Loose', 'root/a', [('Src', x), ('Dst', None)], via='add')
    w.assoc('A_Bin', 'root/a', [('Ante', x), ('Dep', y)])
    out.append(w)
    w = World('null/ternary')
    x, y, o = w.node('root/a', 'N_Base', 'x'), w.node('root/a', 'N_Sub', 'y'), w.node('root/a', 'N_Other', 'o')
    w.assoc('A_Loose3', 'root/a', [('P1', x), ('P2', None), ('P3', o)], via='add')
    w.assoc('A_Loose3', 'root/a', [('P1', None), ('P2', None), ('P3', None)], via='add')
    out.append(w)
    # NULL end stored in another namespace than the one traversed
    w = World('null/other-namespace')
    x, y, b = w.node('root/a', 'N_Base', 'x'), w.node('root/a', 'N_Sub', 'y'), w.node('root/b', 'N_Base', 'b')
    w.assoc('A_Loose', 'root/b', [('Src', None), ('Dst', b)], via='add')
    w.assoc('A_Loose', 'root/a', [('Src', x), ('Dst', y)])
    out.append(w)
    return out


def dangling_worlds():
    out = []
    w = World('dangling/binary')
    x, y, z = w.node('root/a', 'N_Base', 'x'), w.node('root/a', 'N_Sub', 'y'), w.node('root/a', 'N_Base', 'z')
    w.assoc('A_Bin', 'root/a', [('Ante', x), ('Dep', y)])
    w.assoc('A_Bin', 'root/a', [('Ante', x), ('Dep', z)])
    w.delete_node(y)
    out.append(w)
    w = World('dangling/cross-namespace')
    x, y = w.node('root/a', 'N_Base', 'x'), w.node('root/b', 'N_Base', 'y')
    w.assoc('A_Loose', 'root/a', [('Src', x), ('Dst', y)])
    w.delete_node(y)
    out.append(w)
    return out


def imp_cross_worlds():
    out = []
    for req in ('root/a', 'root/b', 'root/c'):
        w = World('inherited-qualifier/cross/req-' + req[-1])
        x, y = w.node('root/a', 'N_Base', 'x'), w.node('root/b', 'N_Sub', 'y')
        w.assoc('A_BinImp', req, [('Ante', x), ('Dep', y)])
        w.assoc('A_Bin', 'root/a', [('Ante', y), ('Dep', x)])
        out.append(w)
    return out


def random_world(name, rnd, n_nodes, n_assocs, nss):
    w = World(name)
    base, other = [], []
    for i in range(n_nodes):
        ns = nss[i % len(nss)] if i < len(nss) else rnd.choice(nss)
        if i % 4 == 3:
            other.append(w.node(ns, 'N_Other', 'o%d' % i))
        else:
            base.append(w.node(ns, rnd.choice(('N_Base', 'N_Base', 'N_Sub', 'N_SubSub')), 'n%d' % i))
    seen = set()
    tries = 0
    while len(seen) < n_assocs and tries < 20 * n_assocs:
        tries += 1
        cls = rnd.choice(('A_Bin', 'A_Bin', 'A_BinSub', 'A_BinImp', 'A_Mixed', 'A_Tern', 'A_Loose', 'A_LooseSub',
                          'A_Loose3'))
        ends = [(r, rnd.choice(base if ROLE_TYPE[r] == 'N_Base' else other)) for r in ROLES[cls]]
        enss = {e[0] for _, e in ends}
        if cls == 'A_BinImp' and len(enss) > 1:
            continue
        req = rnd.choice(sorted(enss))
        sig = (cls, tuple(ends)) if cls not in ID_KEYED else (cls, tuple(ends), len(seen))
        if sig in seen:
            continue
        seen.add(sig)
        w.assoc(cls, req, ends)
    return w


def mutation_sequences(rnd, quick):
    """create A_Loose(Src=e1,Dst=e2) ; modify one end to e3 (through the copy in a chosen namespace) ; delete."""
    specs = []
    names = ('a1', 'a2', 'b1', 'b2', 'c1')
    for e1, e2, e3 in itertools.product(names, repeat=3):
        for role in ('Src', 'Dst'):
            if e3 == (e1 if role == 'Src' else e2):
                continue
            specs.append((e1, e2, e3, role))
    if quick:
        core = [s for s in specs if s[:2] in (('a1', 'b1'), ('a1', 'a2')) and s[3] == 'Dst']
        rest = [s for s in specs if s not in core]
        specs = core + rnd.sample(rest, 6)
    for e1, e2, e3, role in specs:
        w = World('mutate/%s-%s/%s=%s' % (e1, e2, role, e3))
        nd = {}
        for nm in names:
            nd[nm] = w.node('root/' + nm[0], 'N_Sub' if nm[1] == '2' else 'N_Base', nm)
        req = nd[e1][0]
        w.assoc('A_Bin', 'root/a', [('Ante', nd['a1']), ('Dep', nd['b2'])])       # bystander
        aid = w.assoc('A_Loose', req, [('Src', nd[e1]), ('Dst', nd[e2])])
        check_store(w)
        w.modify(aid, req, role, nd[e3])
        explore(w, 'singles', rnd, nsample=4, variants=0, node_sources_only=True, light_refs=True)
        w.obs.clear()
        w.delete_assoc(aid, req)
        explore(w, 'singles', rnd, nsample=0, variants=0, node_sources_only=True, light_refs=True)


# ---------------------------------------------------------------- class level
def class_level(rnd, quick):
    w = World('class-level')
    c = w.conn
    ac = [None] + sorted(c for c in PARENT if c[0] == 'A') + ['a_bIN', 'N_Base', 'A_Nope']
    rc = [None, 'N_Base', 'N_Sub', 'N_SubSub', 'N_Other', 'n_sUB', 'A_Bin', 'N_Nope']
    ro = [None] + sorted(ROLE_TYPE)[::2 if quick else 1] + ['aNTE', 'THIRD', 'Nope']
    uni = (ac, rc, ro, ro)
    tuples = [(None,) * 4]
    for i in range(4):
        for v in uni[i][1:]:
            t = [None] * 4
            t[i] = v
            tuples.append(tuple(t))
    for i, j in itertools.combinations(range(4), 2):
        for v in uni[i][1:]:
            for x in uni[j][1:]:
                if quick and (i, j) != (0, 1) and rnd.random() > 0.04:
                    continue
                t = [None] * 4
                t[i], t[j] = v, x
                tuples.append(tuple(t))
    seen = set(tuples)
    for _ in range(30 if quick else 300):
        t = tuple(rnd.choice(u) for u in uni)
        if t not in seen:
            seen.add(t)
            tuples.append(t)
    targets = sorted(PARENT)[::2 if quick else 1] + ['n_sUBsUB', 'N_Nope']

    def cnames(r, tup):
        if r[0] != 'ok':
            return r
        out = []
        for o in r[1]:
            p = o[0] if tup else o
            if tup and not (isinstance(o, tuple) and isinstance(o[0], CIMClassName) and isinstance(o[1], CIMClass)
                            and o[1].classname == o[0].classname):
                return ('bad', repr(o)[:200])
            if not isinstance(p, CIMClassName):
                return ('bad', repr(o)[:200])
            out.append((p.classname, (p.namespace or '').lower(), p.host))
        return ('ok', sorted(out))
    for tgt in targets:
        cache = {}
        for flt in tuples:
            R.case(('class', tgt, flt))
            kw = {k: v for k, v in zip(('AssocClass', 'ResultClass', 'Role', 'ResultRole'), flt) if v is not None}
            n = cnames(call(c.AssociatorNames, tgt, **kw), False)
            f = cnames(call(c.Associators, tgt, **kw), True)
            d = dict(target_class=tgt, AssocClass=flt[0], ResultClass=flt[1], Role=flt[2], ResultRole=flt[3])
            if n[0] in ('exc', 'bad') or f[0] in ('exc', 'bad'):
                viol('class-level-associators-raises-or-wrong-kind', observed=[repr(n)[:200], repr(f)[:200]], **d)
            elif n != f:
                viol('class-level-associators-names-differ-from-full', names=repr(n)[:300], full=repr(f)[:300], **d)
            elif n[0] == 'ok':
                cache[flt] = {x[0].lower() for x in n[1]}
                if any(not exists(x[0]) or x[1] != 'root/a' or x[2] != c.host for x in n[1]):
                    viol('class-level-associators-returns-unknown-class-or-wrong-namespace', names=repr(n)[:300], **d)
                for i in range(4):
                    weaker = flt[:i] + (None,) + flt[i + 1:]
                    if flt[i] is not None and weaker in cache and not cache[flt] <= cache[weaker]:
                        viol('class-level-filter-adds-results', weaker=weaker, **d)
            elif n[0] == 'cimerror' and exists(tgt) and all(v is None or exists(v) for v in flt[:2]):
                viol('class-level-associators-refused', observed=repr(n), **d)
        for rcv in ac:
            for role in ro:
                class_refs(c, tgt, {k: v for k, v in (('ResultClass', rcv), ('Role', role)) if v is not None}, cnames)


REFS_SEEN = {}


def class_refs(c, tgt, kw, cnames):
    key = (tgt, kw.get('ResultClass'), kw.get('Role'))
    if key in REFS_SEEN:
        return
    R.case(('class-refs',) + key)
    n = cnames(call(c.ReferenceNames, tgt, **kw), False)
    f = cnames(call(c.References, tgt, **kw), True)
    REFS_SEEN[key] = {x[0] for x in n[1]} if n[0] == 'ok' else None
    d = dict(target_class=tgt, **kw)
    if n[0] in ('exc', 'bad') or f[0] in ('exc', 'bad'):
        viol('class-level-references-raises-or-wrong-kind', observed=[repr(n)[:200], repr(f)[:200]], **d)
    elif n != f:
        viol('class-level-references-names-differ-from-full', names=repr(n)[:300], full=repr(f)[:300], **d)
    elif n[0] == 'ok':
        if any(not exists(x[0]) or x[1] != 'root/a' or x[2] != c.host for x in n[1]):
            viol('class-level-references-returns-unknown-class-or-wrong-namespace', names=repr(n)[:300], **d)
        for weaker in ((tgt, None, key[2]), (tgt, key[1], None)):
            w = REFS_SEEN.get(weaker)
            if w is not None and not REFS_SEEN[key] <= w:
                viol('class-level-filter-adds-results', op='ReferenceNames', **d)
    elif n[0] == 'cimerror' and exists(tgt) and (key[1] is None or exists(key[1])):
        viol('class-level-references-refused', observed=repr(n), **d)


# ---------------------------------------------------------------- histories on ONE connection (dynamic model)
# Everything below keeps its own book of what is stored per namespace (classes with their superclass link, node
# instances, association instances with their reference values) and derives the expected answers from that book only.
K_CLS = 'known:class-level-associators-decided-per-property-not-per-end-pair'
K_MOFNS = 'known:mof-redefinition-of-class-lands-in-default-namespace'
K_MOFCACHE = 'known:mof-compiler-class-memory-outlives-class-change'
K_ORPHAN = 'known:delete-through-end-namespace-leaves-copy-in-creating-namespace'
QUAL_MOF = MOF.strip().split('\n')[0] + '\n' + MOF.strip().split('\n')[1] + '\n'
WAYS = ('create', 'add', 'mof')
WHAT_CLS = ('class-level Associators/AssociatorNames takes every reference property of a selected association class '
            'as a far end on its own instead of pairing two distinct ends: the end the source class itself occupies '
            '(also the one named by Role) is returned unless it is typed exactly (case-sensitively) as the source and '
            'no other end has that type; e.g. with [Association] A_Mixed{N_Base REF Left; N_Other REF Right} and '
            'N_Sub : N_Base, AssociatorNames("N_Sub") and AssociatorNames("N_Sub", Role="Left") answer '
            '[N_Base, N_Other] (expected [N_Other]; AssociatorNames("N_Base") answers [N_Other]), and with '
            'A_Bin{N_Base REF Ante; N_Base REF Dep}, AssociatorNames("N_Base", Role="Ante", ResultRole="Ante") '
            'answers [N_Base] (expected nothing: no other end is named Ante)')


class Abort(Exception):
    pass


class Spec:
    """One class as written (local elements only). refs: (role, reference class, is key)."""

    def __init__(self, name, parent=None, assoc=False, refs=(), idkey=False):
        self.name, self.parent, self.assoc, self.refs, self.idkey = name, parent, assoc, tuple(refs), idkey

    def mof(self):
        body = '[Key] string Id; ' if self.idkey else ''
        for r, t, k in self.refs:
            body += '%s%s REF %s; ' % ('[Key] ' if k else '', t, r)
        return '%sclass %s%s { %s};' % ('[Association] ' if self.assoc else '', self.name,
                                        ' : ' + self.parent if self.parent else '', body)

    def cimclass(self):
        props = []
        if self.idkey:
            props.append(CIMProperty('Id', None, type='string', qualifiers={'Key': CIMQualifier('Key', True)}))
        for r, t, k in self.refs:
            props.append(CIMProperty(r, None, type='reference', reference_class=t,
                                     qualifiers={'Key': CIMQualifier('Key', True)} if k else {}))
        return CIMClass(self.name, superclass=self.parent, properties=props,
                        qualifiers={'Association': CIMQualifier('Association', True)} if self.assoc else {})


def qual_decls():
    return [CIMQualifierDeclaration('Association', 'boolean', value=False, scopes={'ASSOCIATION': True},
                                    overridable=False, tosubclass=True),
            CIMQualifierDeclaration('Key', 'boolean', value=False, scopes={'PROPERTY': True, 'REFERENCE': True},
                                    overridable=False, tosubclass=True)]


BASE_SPECS = (Spec('N_Base', idkey=True), Spec('N_Other', idkey=True),
              Spec('A_Bin', assoc=True, refs=(('Ante', 'N_Base', True), ('Dep', 'N_Base', True))),
              Spec('A_Loose', assoc=True, idkey=True, refs=(('Src', 'N_Base', False), ('Dst', 'N_Base', False))),
              Spec('A_Mixed', assoc=True, refs=(('Left', 'N_Base', True), ('Right', 'N_Other', True))))
TOP_V1 = Spec('A_Top', assoc=True, refs=(('P', 'N_Base', True), ('Q', 'N_Other', True)))
TOP_V2 = Spec('A_Top', assoc=True, refs=(('P', 'N_Base', True), ('Q', 'N_Base', True), ('R', 'N_Other', False)))
ALL_ROLES = ('Ante', 'Dep', 'Src', 'Dst', 'Left', 'Right', 'P', 'Q', 'R')


class MCls:
    def __init__(self, spec, parent):
        self.name, self.parent, self.declared, self.spec = spec.name, spec.parent, spec.assoc, spec
        self.refs = (list(parent.refs) if parent else []) + [(r, t) for r, t, _ in spec.refs]
        self.keyroles = (list(parent.keyroles) if parent else []) + [r for r, _, k in spec.refs if k]
        self.idkey = spec.idkey or bool(parent and parent.idkey)


class MNs:
    def __init__(self):
        self.cls, self.nodes, self.assocs = {}, {}, {}

    def exists(self, c):
        return c.lower() in self.cls

    def chain(self, c):
        c = self.cls.get(c.lower())
        while c:
            yield c
            c = self.cls.get(c.parent.lower()) if c.parent else None

    def is_a(self, c, anc):
        return any(x.name.lower() == anc.lower() for x in self.chain(c))

    def assoc_effective(self, c, declared_only=False):
        return self.cls[c.lower()].declared if declared_only else any(x.declared for x in self.chain(c))

    def subtree(self, c):
        return [x.name for x in self.cls.values() if self.is_a(x.name, c)]

    def leaf(self, c):
        return self.subtree(c) == [self.cls[c.lower()].name]


class ARec:
    def __init__(self, cls, aid, ends):
        self.cls, self.aid, self.ends = cls, aid, tuple(ends)

    def key(self, ns, mcls):
        kb = [('id', self.aid)] if mcls.idkey else []
        kb += [(r.lower(), nodekey(e)) for r, e in self.ends if r in mcls.keyroles]
        return (ns, self.cls.lower(), tuple(sorted(kb)))

    def nss(self):
        return {e[0] for _, e in self.ends}


def same(a, b):
    return a is None or a.lower() == b.lower()


def h_refs(mns, xk, rc, role):
    if rc is not None and not mns.exists(rc):
        return INVALID
    return srt(rec.key(xk[0], mns.cls[rec.cls.lower()]) for rec in mns.assocs.values()
               if (rc is None or mns.is_a(rec.cls, rc)) and any(nodekey(e) == xk and same(role, r) for r, e in rec.ends))


def h_assocs(mns, xk, ac, rc, role, rrole):
    if (ac is not None and not mns.exists(ac)) or (rc is not None and not mns.exists(rc)):
        return INVALID
    return srt({nodekey(e2) for rec in mns.assocs.values() if ac is None or mns.is_a(rec.cls, ac)
                for i, (r1, e1) in enumerate(rec.ends) if nodekey(e1) == xk and same(role, r1)
                for j, (r2, e2) in enumerate(rec.ends)
                if i != j and nodekey(e2) != xk and same(rrole, r2) and (rc is None or mns.is_a(e2[1], rc))})


def c_refs(mns, tgt, rc, role, declared_only=False):
    if not mns.exists(tgt) or (rc is not None and not mns.exists(rc)):
        return INVALID
    return sorted(a.name.lower() for a in mns.cls.values()
                  if a.refs and mns.assoc_effective(a.name, declared_only) and (rc is None or mns.is_a(a.name, rc))
                  and any(mns.is_a(tgt, t) and same(role, r) for r, t in a.refs))


def c_assocs(mns, tgt, ac, rc, role, rrole, declared_only=False):
    if not mns.exists(tgt) or (ac is not None and not mns.exists(ac)) or (rc is not None and not mns.exists(rc)):
        return INVALID
    return sorted({t2.lower() for a in mns.cls.values()
                   if a.refs and mns.assoc_effective(a.name, declared_only) and (ac is None or mns.is_a(a.name, ac))
                   for i, (r1, t1) in enumerate(a.refs) if mns.is_a(tgt, t1) and same(role, r1)
                   for j, (r2, t2) in enumerate(a.refs)
                   if i != j and same(rrole, r2) and (rc is None or mns.is_a(t2, rc))})


def c_assocs_per_property(mns, tgt, ac, rc, role, rrole):
    """Defect model for K_CLS: every reference property of a selected association class is taken as a far end on its
    own (the near end is not excluded) unless it is the only one typed exactly (case-sensitively) as the source."""
    sel = c_refs(mns, tgt, ac, role, declared_only=True)
    if sel == INVALID or (rc is not None and not mns.exists(rc)):
        return INVALID
    out = set()
    for a in sel:
        refs = mns.cls[a].refs
        for r, t in refs:
            if same(rrole, r) and (rc is None or mns.is_a(t, rc)) and \
                    not (t == tgt and sum(1 for _, t2 in refs if t2 == t) == 1):
                out.add(t.lower())
    return sorted(out)


class Hist:
    count = 0

    def __init__(self, name, rnd, quick):
        Hist.count += 1
        self.name, self.rnd, self.quick = name, rnd, quick
        self.conn = FakedWBEMConnection(default_namespace='root/a', use_pull_operations=None if Hist.count % 2 else False)
        self.m = {'root/a': MNs()}
        self.steps = []
        self.seq = 0
        self.nround = self.nq = 0
        self.flts = self.cflts = self.targets = None
        self.touched = set()        # objects the steps since the last round were about (always asked in that round)
        self.max_sources = 6 if quick else None
        self.req = {}               # association id -> namespace it was created in
        self.mof_seen, self.mof_stale = set(), set()     # classes the MOF compiler has looked at / that changed since
        self.step('qualifier declarations in root/a (mof)', self.conn.compile_mof_string, QUAL_MOF, namespace='root/a')

    # -- plumbing
    def step(self, text, fn, *a, **k):
        self.steps.append(text)
        r = call(fn, *a, **k)
        if r[0] != 'ok':
            self.steps[-1] += ' -> %r' % (r[1:],)
            viol('history-step-fails', steps=self.steps, observed=repr(r)[:300])
            raise Abort()
        return r[1]

    def refuse(self, kind, text, fn, *a, **k):
        """An operation the server has to refuse. Nothing is booked for it."""
        about = k.pop('about', ())
        self.steps.append('to be refused (%s) %s' % (kind, text))
        R.case((self.name, 'refused', kind, len(self.steps)))
        r = call(fn, *a, **k)
        if r[0] == 'ok':
            self.steps[-1] += ' -> ACCEPTED'
            self.bad('history-invalid-operation-accepted', kind=kind, operation=text)
            raise Abort()       # the book no longer says what is stored
        self.steps[-1] += ' -> refused %r' % (r[1:],)
        if r[0] == 'exc' and r[1] not in ('ValueError', 'MOFDependencyError', 'MOFRepositoryError', 'MOFParseError'):
            self.bad('history-refusal-is-an-internal-error', kind=kind, operation=text, observed=repr(r))
        self.touched.update(about)

    def bad(self, vid, **d):
        viol(vid, history=self.name, steps=self.steps[-40:], nsteps=len(self.steps), round=self.nround, **d)

    def npath(self, n):
        return CIMInstanceName(n[1], {'Id': n[2]}, namespace=n[0])

    # The MOF compiler of a connection keeps the classes it has seen and never drops them (K_MOFCACHE, probed on its
    # own below); the histories write instances through MOF only where that memory is still right.
    def mof_saw(self, ns, names):
        self.mof_seen.update((ns, c.lower()) for c in names)

    def changed(self, ns, names):
        self.mof_stale.update((ns, c.lower()) for c in names if (ns, c.lower()) in self.mof_seen)

    def inst_way(self, ns, cls, via):
        chain = [c.name for c in self.m[ns].chain(cls)]
        if via == 'mof' and any((ns, c.lower()) in self.mof_stale for c in chain):
            return 'create'
        if via == 'mof':
            self.mof_saw(ns, chain)
        return via

    def apath(self, rec, ns):
        mc = self.m[ns].cls[rec.cls.lower()]
        kb = {'Id': rec.aid} if mc.idkey else {}
        kb.update({r: self.npath(e) for r, e in rec.ends if r in mc.keyroles})
        return CIMInstanceName(rec.cls, kb, namespace=ns)

    # -- the ways the repository can change
    def add_ns(self, ns, via='add', specs=BASE_SPECS, class_via='add'):
        self.step('add_namespace %s' % ns, self.conn.add_namespace, ns)
        self.m[ns] = MNs()
        if via == 'add':
            self.step('add_cimobjects qualifier declarations in %s' % ns, self.conn.add_cimobjects, qual_decls(),
                      namespace=ns)
        else:
            self.step('compile_mof_string qualifier declarations in %s' % ns, self.conn.compile_mof_string, QUAL_MOF,
                      namespace=ns)
        for s in specs:
            self.add_class(ns, s, class_via)

    def remove_ns(self, ns):
        mns = self.m[ns]
        for aid in list(mns.assocs):
            self.delete_assoc(aid, ns)
        for n in list(mns.nodes.values()):
            self.delete_node(n)
        roots = [c.name for c in mns.cls.values() if c.parent is None]
        for c in sorted(roots, key=lambda c: not mns.cls[c.lower()].refs):
            self.delete_class(ns, c)
        for q in ('Association', 'Key'):
            self.step('DeleteQualifier %s in %s' % (q, ns), self.conn.DeleteQualifier, q, namespace=ns)
        self.mof_stale.update(k for k in self.mof_seen if k[0] == ns)
        self.step('remove_namespace %s' % ns, self.conn.remove_namespace, ns)
        del self.m[ns]

    def add_class(self, ns, spec, via):
        mns = self.m[ns]
        assert not mns.exists(spec.name) and (spec.parent is None or mns.exists(spec.parent))
        txt = '%s in %s: %s' % ({'create': 'CreateClass', 'add': 'add_cimobjects', 'mof': 'compile_mof_string'}[via],
                                ns, spec.mof())
        if via == 'create':
            self.step(txt, self.conn.CreateClass, spec.cimclass(), namespace=ns)
        elif via == 'add':
            self.step(txt, self.conn.add_cimobjects, spec.cimclass(), namespace=ns)
        else:
            self.step(txt, self.conn.compile_mof_string, spec.mof(), namespace=ns)
            self.mof_saw(ns, [spec.name] + ([spec.parent] if spec.parent else []) + [t for _, t, _ in spec.refs])
            self.mof_stale.discard((ns, spec.name.lower()))
        mns.cls[spec.name.lower()] = MCls(spec, mns.cls[spec.parent.lower()] if spec.parent else None)

    def modify_class(self, ns, spec, via):
        mns = self.m[ns]
        old = mns.cls[spec.name.lower()]
        assert mns.leaf(spec.name) and old.parent == spec.parent
        assert not any(r.cls.lower() == spec.name.lower() for r in mns.assocs.values())
        if via == 'modify':
            self.step('ModifyClass in %s: %s' % (ns, spec.mof()), self.conn.ModifyClass, spec.cimclass(), namespace=ns)
        else:
            self.step('compile_mof_string (redefinition) in %s: %s' % (ns, spec.mof()), self.conn.compile_mof_string,
                      spec.mof(), namespace=ns)
            self.mof_saw(ns, [spec.name])
        self.changed(ns, [spec.name])
        mns.cls[spec.name.lower()] = MCls(spec, mns.cls[spec.parent.lower()] if spec.parent else None)

    def delete_class(self, ns, name):
        mns = self.m[ns]
        sub = {c.lower() for c in mns.subtree(name)}
        gone = [n for n in mns.nodes.values() if n[1].lower() in sub]
        for n in gone:      # no dangling ends are left behind (that situation is a known finding of its own)
            self.detach(n)
        self.step('DeleteClass %s in %s' % (name, ns), self.conn.DeleteClass, name, namespace=ns)
        self.changed(ns, sub)
        for n in gone:
            del mns.nodes[nodekey(n)]
        for aid in [a for a, r in mns.assocs.items() if r.cls.lower() in sub]:
            for o in self.m.values():
                o.assocs.pop(aid, None)
            del self.req[aid]
        for c in sub:
            del mns.cls[c]

    def add_node(self, ns, cls, nid, via='create'):
        n = (ns, cls, nid)
        via = self.inst_way(ns, cls, via)
        txt = '%s node %s:%s.Id=%s' % ((via,) + n)
        if via == 'create':
            p = self.step(txt, self.conn.CreateInstance, CIMInstance(cls, properties={'Id': nid}), namespace=ns)
            if kpath(p) != nodekey(n):
                self.bad('create-returned-path-differs', observed=str(p))
        elif via == 'add':
            self.step(txt, self.conn.add_cimobjects, CIMInstance(cls, properties={'Id': nid}, path=self.npath(n)),
                      namespace=ns)
        else:
            self.step(txt, self.conn.compile_mof_string, 'instance of %s { Id = "%s"; };' % (cls, nid), namespace=ns)
        self.m[ns].nodes[nodekey(n)] = n
        self.touched.add(nodekey(n))
        return n

    def add_assoc(self, req, cls, ends, via='create', aid=None):
        mns = self.m[req]
        mc = mns.cls[cls.lower()]
        self.seq += 1
        aid = aid or 'h%d' % self.seq
        rec = ARec(cls, aid, ends)
        nss = {req} | rec.nss()
        assert [r for r, _ in ends] == [r for r, _ in mc.refs] and all(self.m[ns].exists(cls) for ns in nss)
        assert nss == {req} or (mns.assoc_effective(cls, True) and via != 'add')
        via = self.inst_way(req, cls, via)
        txt = '%s %s in %s %s' % (via, cls, req, ' '.join('%s=%s:%s.Id=%s' % ((r,) + e) for r, e in ends))
        if via == 'create':
            props = {r: self.npath(e) for r, e in ends}
            if mc.idkey:
                props['Id'] = aid
            p = self.step(txt, self.conn.CreateInstance, CIMInstance(cls, properties=props), namespace=req)
            if kpath(p) != rec.key(req, mc):
                self.bad('create-returned-path-differs', observed=str(p))
        elif via == 'add':
            props = [CIMProperty('Id', aid)] if mc.idkey else []
            props += [CIMProperty(r, self.npath(e), type='reference', reference_class=dict(mc.refs)[r])
                      for r, e in ends]
            self.m[req].assocs[aid] = rec
            path = self.apath(rec, req)
            del self.m[req].assocs[aid]
            self.step(txt, self.conn.add_cimobjects, CIMInstance(cls, properties=props, path=path), namespace=req)
        else:
            body = 'Id = "%s"; ' % aid if mc.idkey else ''
            body += ''.join('%s = "%s:%s.Id=\\"%s\\""; ' % ((r,) + e) for r, e in ends)
            self.step(txt, self.conn.compile_mof_string, 'instance of %s { %s};' % (cls, body), namespace=req)
        for ns in nss:
            self.m[ns].assocs[aid] = rec
        self.req[aid] = req
        self.touched.update(nodekey(e) for _, e in ends)
        return aid

    def holders(self, aid):
        return [ns for ns in sorted(self.m) if aid in self.m[ns].assocs]

    def through(self, aid, via_ns):
        """Namespace through which the association is modified/deleted: any holder, but the creating one where that
        holds no end (through another one its copy there is left behind: K_ORPHAN, probed on its own below)."""
        req = self.req[aid]
        return req if via_ns is None or req not in self.m[req].assocs[aid].nss() else via_ns

    def modify_assoc(self, aid, role, new, via_ns=None):
        ns = self.through(aid, via_ns)
        old = self.m[ns].assocs[aid]
        assert role not in self.m[ns].cls[old.cls.lower()].keyroles and dict(old.ends)[role][0] == new[0]
        rec = ARec(old.cls, aid, [(r, new if r == role else e) for r, e in old.ends])
        self.step('ModifyInstance %s %s through %s: %s=%s:%s.Id=%s' % ((old.cls, aid, ns, role) + new),
                  self.conn.ModifyInstance, CIMInstance(old.cls, properties={role: self.npath(new)},
                                                        path=self.apath(old, ns)))
        for o in self.holders(aid):
            self.m[o].assocs[aid] = rec
        self.touched.update(nodekey(e) for _, e in old.ends + rec.ends)

    def delete_assoc(self, aid, via_ns=None):
        ns = self.through(aid, via_ns)
        rec = self.m[ns].assocs[aid]
        self.step('DeleteInstance %s %s through %s' % (rec.cls, aid, ns), self.conn.DeleteInstance, self.apath(rec, ns))
        for o in self.m.values():
            o.assocs.pop(aid, None)
        del self.req[aid]
        self.touched.update(nodekey(e) for _, e in rec.ends)

    def detach(self, n):
        k = nodekey(n)
        for aid in sorted({a for o in self.m.values() for a, r in o.assocs.items()
                           if any(nodekey(e) == k for _, e in r.ends)}):
            self.delete_assoc(aid)

    def delete_node(self, n):
        self.detach(n)
        self.step('DeleteInstance node %s:%s.Id=%s' % n, self.conn.DeleteInstance, self.npath(n))
        del self.m[n[0]].nodes[nodekey(n)]

    # -- the query matrix (fixed for the whole history so that every round re-asks what earlier rounds asked)
    def set_matrix(self, acls, ncls, roles, focus=(), targets=()):
        ac = [None] + list(acls) + [swapcase_first(acls[0]), ncls[0], 'A_Nope']
        rc = [None] + list(ncls) + [swapcase_first(ncls[0]), acls[0], 'N_Nope']
        ro = [None] + list(roles) + [swapcase_first(roles[0]), roles[-1].upper(), 'Nope']
        uni = (ac, rc, ro, ro)
        singles, pairs = [], []
        for i in range(4):
            for v in uni[i][1:]:
                t = [None] * 4
                t[i] = v
                singles.append(tuple(t))
        for i, j in itertools.combinations(range(4), 2):
            for v in uni[i][1:]:
                for x in uni[j][1:]:
                    t = [None] * 4
                    t[i], t[j] = v, x
                    pairs.append(tuple(t))
        seen = set(singles) | set(pairs)
        deep = []
        for _ in range(10 if self.quick else 150):
            t = [None] * 4
            for p in self.rnd.sample(range(4), self.rnd.choice((3, 3, 4))):
                t[p] = self.rnd.choice(uni[p][1:])
            if tuple(t) not in seen:
                seen.add(tuple(t))
                deep.append(tuple(t))
        fs = [t for t in singles if t[0] in focus or t[1] in focus]
        fp = [t for t in pairs if t[0] in focus or t[1] in focus]
        rf = list(itertools.product(ac, ro))
        cf = singles + pairs + deep
        self.targets = list(targets) + [swapcase_first(targets[0]), 'N_Nope']
        frf = [t for t in rf[1:] if t[0] in focus and t[1] is None]

        def pick(pop, k):
            return self.rnd.sample(pop, min(k, len(pop)))
        # seeded samples, fixed for the history, always with the names whose subtrees change; level 2 = all of it
        none = [(None,) * 4]
        self.matrix = {0: (none + pick(fs, 4) + pick(fp, 2) + deep[:1], [rf[0]] + pick(frf, 2) + pick(rf[1:], 1),
                           none + pick(fs, 2) + pick(cf, 2)),
                       1: (none + singles + pick(fp, 30) + pick(pairs, 20) + deep[:10], [rf[0]] + frf + pick(rf[1:], 25),
                           none + pick(fs, 6) + pick(cf, 8)),
                       2: (none + singles + pairs + deep, rf, none + singles + pick(cf, 40))}
        self.flts, self.rflts, self.cflts = self.matrix[0 if self.quick else 1]

    def sources(self):
        out = []
        for ns in sorted(self.m):
            for n in self.m[ns].nodes.values():
                out.append((n[2], ns, '%s:%s.Id=%s' % n, self.npath(n), nodekey(n)))
        seen = set()
        for ns in sorted(self.m):
            for rec in self.m[ns].assocs.values():
                k = rec.key(ns, self.m[ns].cls[rec.cls.lower()])
                if k not in seen:
                    seen.add(k)
                    out.append(('~' + rec.aid, ns, 'assoc %s %s in %s' % (rec.cls, rec.aid, ns), self.apath(rec, ns), k))
        out.sort(key=lambda s: (s[0], s[1]))       # same id in one namespace, then in the other
        missing = ('root/a', 'N_Base', 'missing')
        out.append(('missing', 'root/a', 'missing root/a:N_Base.Id=missing', self.npath(missing), nodekey(missing)))
        if self.max_sources:    # what the last steps were about, then a seeded sample of the rest
            nodes = [s for s in out if s[0][0] != '~']
            recs = [s for s in out if s[0][0] == '~']
            hot = [s for s in nodes if s[4] in self.touched]
            hot = self.rnd.sample(hot, min(4, len(hot)))
            cold = [s for s in nodes if s not in hot]
            out = sorted(hot + self.rnd.sample(cold, min(self.max_sources - len(hot), len(cold))),
                         key=lambda s: (s[0], s[1])) + self.rnd.sample(recs, min(self.max_sources // 4, len(recs)))
        self.touched.clear()
        return [s[1:] for s in out]

    # -- one round: the model against the server
    def round(self, label, minor=False, full=False):
        if self.quick and minor:
            return
        if not self.quick:
            self.flts, self.rflts, self.cflts = self.matrix[2 if full else 1]
        self.nround += 1
        self.steps.append('-- round %d (%s)' % (self.nround, label))
        stores_ok = self.check_stores(go_on=True)
        srcs = self.sources()
        obs = {}
        for flt in self.flts:
            for src in srcs:
                self.q_assoc(src, flt, obs)
        for flt in self.rflts:
            for src in srcs:
                self.q_refs(src, flt)
        self.symmetry(srcs, obs)
        nss, tgts = sorted(self.m), self.targets
        if self.quick:      # two namespaces and three target classes per round, rotating
            nss = [nss[(self.nround + k) % len(nss)] for k in range(min(2, len(nss)))]
            tgts = [tgts[(self.nround + k) % len(tgts)] for k in (0, 3)]
        for tgt in tgts:
            for flt in self.cflts:
                for ns in nss:
                    self.q_class(ns, tgt, flt)
        picks = [(self.rnd.choice(srcs), self.rnd.choice(self.flts)) for _ in range(2 if self.quick else 8)]
        for k, (src, flt) in enumerate(picks):
            self.repeat(src, flt)
            if k % 2 == 0 or not self.quick:
                self.pulls(src, flt)
        self.repeat_class(self.rnd.choice(nss), self.rnd.choice(self.targets[:-2]))
        if not stores_ok:
            raise Abort()
        self.check_stores()

    def check_stores(self, go_on=False):
        """Stored classes and instance paths per namespace against the book. A difference ends the history (the book
        no longer says what is stored) - with go_on only after the round that follows has been asked as well."""
        ok = True
        for ns in sorted(self.m):
            R.case((self.name, self.nround, 'store', ns))
            mns = self.m[ns]
            r = call(self.conn.EnumerateClassNames, namespace=ns, DeepInheritance=True)
            if r[0] != 'ok' or sorted(c.lower() for c in r[1]) != sorted(mns.cls):
                self.bad('history-stored-classes-differ-from-model', namespace=ns, observed=repr(r)[:300],
                         expected=sorted(mns.cls))
                ok = False
                continue
            got = []
            for c in mns.cls.values():
                if c.parent is None:
                    r = call(self.conn.EnumerateInstanceNames, c.name, namespace=ns)
                    if r[0] != 'ok':
                        self.bad('history-enumerate-instances-fails', namespace=ns, observed=repr(r)[:300])
                        ok = False
                    else:
                        got.extend(kpath(p) for p in r[1])
            exp = srt(list(mns.nodes) + [rec.key(ns, mns.cls[rec.cls.lower()]) for rec in mns.assocs.values()])
            if srt(got) != exp:
                self.bad('history-stored-instances-differ-from-model', namespace=ns, observed=repr(srt(got))[:400],
                         expected=repr(exp)[:400])
                ok = False
        if not ok and not go_on:
            raise Abort()
        return ok

    def inst_ok(self, inst):
        k = kpath(inst.path)
        mns = self.m.get(k[0])
        if mns is None:
            return False
        if k in mns.nodes:
            n = mns.nodes[k]
            return inst.classname.lower() == n[1].lower() and inst.get('Id') == n[2]
        for rec in mns.assocs.values():
            if rec.key(k[0], mns.cls[rec.cls.lower()]) == k:
                return inst.classname.lower() == rec.cls.lower() and \
                    all(isinstance(inst.get(r), CIMInstanceName) and kpath(inst.get(r)) == nodekey(e)
                        for r, e in rec.ends)
        return False

    def with_full(self):
        """Quick tier: the full variant (Associators/References) goes with every other Names query only."""
        self.nq += 1
        return not self.quick or (self.nq + self.nround) % 2 == 0

    def q_assoc(self, src, flt, obs):
        ns, label, xpath, xk = src
        R.case((self.name, self.nround, 'A', label, flt))
        d = dict(op='Associators/AssociatorNames', source=label, AssocClass=flt[0], ResultClass=flt[1], Role=flt[2],
                 ResultRole=flt[3])
        kw = {k: v for k, v in zip(('AssocClass', 'ResultClass', 'Role', 'ResultRole'), flt) if v is not None}
        names = call(self.conn.AssociatorNames, xpath, **kw)
        full = call(self.conn.Associators, xpath, **kw) if self.with_full() else names
        exp = h_assocs(self.m[ns], xk, *flt)
        if names[0] == 'exc' or full[0] == 'exc':
            return self.bad('history-associators-raises', observed=[repr(names)[:200], repr(full)[:200]], **d)
        if exp == INVALID:
            return check_invalid(self, 'history-associators', names, full, d)
        if names[0] != 'ok' or full[0] != 'ok':
            return self.bad('history-associators-refused', observed=[repr(names)[:200], repr(full)[:200]],
                            expected=repr(exp)[:300], **d)
        try:
            got = srt(kpath(p) for p in names[1])
            gotf = srt(kpath(i.path) for i in full[1]) if full is not names else got
        except Exception as e:  # noqa
            return self.bad('history-associators-wrong-kind', observed=repr(e), **d)
        if got != exp:
            return self.bad('history-associatornames-differ-from-stored', expected=repr(exp)[:400],
                            observed=repr(got)[:400], **d)
        if gotf != exp:
            return self.bad('history-associators-differ-from-stored', expected=repr(exp)[:400],
                            observed=repr(gotf)[:400], **d)
        if full is not names and not all(self.inst_ok(i) for i in full[1]):
            return self.bad('history-associators-instance-differs-from-stored', **d)
        obs[(label, flt)] = (src, got)

    def q_refs(self, src, flt):
        ns, label, xpath, xk = src
        R.case((self.name, self.nround, 'R', label, flt))
        d = dict(op='References/ReferenceNames', source=label, ResultClass=flt[0], Role=flt[1])
        kw = {k: v for k, v in zip(('ResultClass', 'Role'), flt) if v is not None}
        names = call(self.conn.ReferenceNames, xpath, **kw)
        full = call(self.conn.References, xpath, **kw) if self.with_full() else names
        exp = h_refs(self.m[ns], xk, *flt)
        if names[0] == 'exc' or full[0] == 'exc':
            return self.bad('history-references-raises', observed=[repr(names)[:200], repr(full)[:200]], **d)
        if exp == INVALID:
            return check_invalid(self, 'history-references', names, full, d)
        if names[0] != 'ok' or full[0] != 'ok':
            return self.bad('history-references-refused', observed=[repr(names)[:200], repr(full)[:200]],
                            expected=repr(exp)[:300], **d)
        try:
            got = srt(kpath(p) for p in names[1])
            gotf = srt(kpath(i.path) for i in full[1]) if full is not names else got
        except Exception as e:  # noqa
            return self.bad('history-references-wrong-kind', observed=repr(e), **d)
        if got != exp:
            return self.bad('history-referencenames-differ-from-stored', expected=repr(exp)[:400],
                            observed=repr(got)[:400], **d)
        if gotf != exp:
            return self.bad('history-references-differ-from-stored', expected=repr(exp)[:400],
                            observed=repr(gotf)[:400], **d)
        if full is not names and not all(self.inst_ok(i) for i in full[1]):
            return self.bad('history-references-instance-differs-from-stored', **d)

    def symmetry(self, srcs, obs):
        """y in Assoc(x; ac, -, role, rrole)  <=>  x in Assoc(y; ac, -, rrole, role), on the observed answers."""
        by_key = {s[3]: s for s in srcs}
        back = {}
        for (_, flt), (src, got) in list(obs.items()):
            if flt[1] is not None:
                continue
            for yk in got:
                ys = by_key.get(yk)
                if ys is None:
                    continue
                bf = (flt[0], None, flt[3], flt[2])
                if (ys[1], bf) not in back:
                    R.case((self.name, self.nround, 'sym', ys[1], bf))
                    kw = {k: v for k, v in zip(('AssocClass', 'ResultClass', 'Role', 'ResultRole'), bf)
                          if v is not None}
                    r = call(self.conn.AssociatorNames, ys[2], **kw)
                    back[(ys[1], bf)] = srt(kpath(p) for p in r[1]) if r[0] == 'ok' else None
                b = back[(ys[1], bf)]
                if b is not None and src[3] not in b:
                    self.bad('history-association-not-symmetric', source=src[1], filters=flt, associated=ys[1],
                             reverse_filters=bf, reverse_result=repr(b)[:300])

    def q_class(self, ns, tgt, flt):
        R.case((self.name, self.nround, 'C', ns, tgt, flt))
        mns = self.m[ns]
        kw = {k: v for k, v in zip(('AssocClass', 'ResultClass', 'Role', 'ResultRole'), flt) if v is not None}
        d = dict(op='class-level Associators/AssociatorNames', namespace=ns, target_class=tgt, **kw)
        cp = CIMClassName(tgt, namespace=ns)

        def lower(r, tup):
            if r[0] != 'ok':
                return r
            try:
                out = []
                for o in r[1]:
                    p = o[0] if tup else o
                    if not isinstance(p, CIMClassName) or (p.namespace or '').lower() != ns or \
                            (tup and o[1].classname != p.classname):
                        return ('bad', repr(o)[:200])
                    out.append(p.classname.lower())
                return ('ok', sorted(out))
            except Exception as e:  # noqa
                return ('bad', repr(e))
        n = lower(call(self.conn.AssociatorNames, cp, **kw), False)
        f = lower(call(self.conn.Associators, cp, **kw), True)
        self.judge_class(d, n, f, c_assocs(mns, tgt, *flt), c_assocs(mns, tgt, *flt, declared_only=True),
                         c_assocs_per_property(mns, tgt, *flt), 'associators')
        if flt[1] is None and flt[3] is None:
            kw = {k: v for k, v in (('ResultClass', flt[0]), ('Role', flt[2])) if v is not None}
            d = dict(op='class-level References/ReferenceNames', namespace=ns, target_class=tgt, **kw)
            R.case((self.name, self.nround, 'CR', ns, tgt, flt))
            n = lower(call(self.conn.ReferenceNames, cp, **kw), False)
            f = lower(call(self.conn.References, cp, **kw), True)
            decl = c_refs(mns, tgt, flt[0], flt[2], declared_only=True)
            self.judge_class(d, n, f, c_refs(mns, tgt, flt[0], flt[2]), decl, decl, 'references')

    def judge_class(self, d, n, f, exp, exp_decl, exp_pp, op):
        if n[0] in ('exc', 'bad') or f[0] in ('exc', 'bad'):
            return self.bad('history-class-level-%s-raises-or-wrong-kind' % op, observed=[repr(n)[:200], repr(f)[:200]],
                            **d)
        if exp == INVALID:
            if not all(r == ('cimerror', 4) or (r[0] == 'ok' and not r[1]) for r in (n, f)) or n[0] != f[0]:
                self.bad('history-class-level-%s-nonexistent-class-not-refused-or-empty' % op,
                         observed=[repr(n)[:200], repr(f)[:200]], **d)
            return
        if n != f:
            return self.bad('history-class-level-%s-names-differ-from-full' % op, names=repr(n)[:300],
                            full=repr(f)[:300], **d)
        if n != ('ok', exp):
            if n == ('ok', exp_decl):
                vid = K_IMP
            elif n == ('ok', exp_pp):
                vid = K_CLS
            else:
                vid = 'history-class-level-%s-differ-from-stored' % op
            if vid == K_CLS:
                d = dict(d, what=WHAT_CLS)
            self.bad(vid, expected=repr(exp)[:300], observed=repr(n)[:300], **d)

    def repeat(self, src, flt):
        """The same query twice in a row: equal answers, no shared objects; spoiling the first answer (and the
        arguments) changes neither the second answer nor the repository."""
        ns, label, xpath, xk = src
        kw = {k: v for k, v in zip(('AssocClass', 'ResultClass', 'Role', 'ResultRole'), flt) if v is not None}
        rkw = {k: v for k, v in (('ResultClass', flt[0]), ('Role', flt[2])) if v is not None}
        c = self.conn
        for op, fn, k in (('AssociatorNames', c.AssociatorNames, kw), ('Associators', c.Associators, kw),
                          ('ReferenceNames', c.ReferenceNames, rkw), ('References', c.References, rkw)):
            R.case((self.name, self.nround, 'twice', op, label, flt))
            d = dict(op=op, source=label, filters=k)
            arg = xpath.copy()
            if arg.namespace == 'root/a' and self.nround % 2:
                arg.namespace = None
            before = arg.copy()
            r1, r2 = call(fn, arg, **k), call(fn, arg, **k)
            if arg != before or arg.namespace != before.namespace or arg.host != before.host:
                self.bad('history-query-modifies-its-argument', before=str(before), after=str(arg), **d)
            if r1[0] != 'ok' or r2[0] != 'ok':
                if r1 != r2:
                    self.bad('history-same-query-twice-differs', observed=[repr(r1)[:200], repr(r2)[:200]], **d)
                continue
            key = (lambda o: kpath(o)) if op.endswith('Names') else (lambda o: kpath(o.path))
            s1, s2 = sorted(r1[1], key=lambda o: repr(key(o))), sorted(r2[1], key=lambda o: repr(key(o)))
            if s1 != s2:
                self.bad('history-same-query-twice-differs', observed=[repr(s1)[:200], repr(s2)[:200]], **d)
                continue
            if r1[1] is r2[1] or any(a is b for a in r1[1] for b in r2[1]) or \
                    (not op.endswith('Names') and any(a.path is b.path or a.properties is b.properties
                                                     for a in r1[1] for b in r2[1])):
                self.bad('history-same-query-twice-shares-objects', **d)
            want = [key(o) for o in s2]
            snap = [o.tomof() if not op.endswith('Names') else str(o) for o in s2]
            for o in r1[1]:         # spoil the first answer in place
                p = o if op.endswith('Names') else o.path
                for kk, v in list(p.keybindings.items()):
                    if isinstance(v, CIMInstanceName):
                        v.keybindings['Id'] = 'spoilt'
                        v.classname = 'Spoilt'
                    else:
                        p.keybindings[kk] = 'spoilt'
                p.classname, p.namespace = 'Spoilt', 'spoilt'
                if not op.endswith('Names'):
                    for pr in o.properties.values():
                        if isinstance(pr.value, CIMInstanceName):
                            pr.value.keybindings['Id'] = 'spoilt'
                            pr.value.namespace = 'spoilt'
                        else:
                            pr.value = 'spoilt'
            del r1[1][:]
            if [key(o) for o in s2] != want or [o.tomof() if not op.endswith('Names') else str(o) for o in s2] != snap:
                self.bad('history-same-query-twice-shares-objects', **d)
            r3 = call(fn, arg, **k)
            if r3[0] != 'ok' or [key(o) for o in sorted(r3[1], key=lambda o: repr(key(o)))] != want:
                self.bad('history-spoiling-an-answer-changes-the-next-answer', expected=repr(want)[:300],
                         observed=repr(r3)[:300], **d)

    def repeat_class(self, ns, tgt):
        if not self.m[ns].exists(tgt):
            return
        cp = CIMClassName(tgt, namespace=ns)
        for op, fn in (('Associators', self.conn.Associators), ('References', self.conn.References)):
            R.case((self.name, self.nround, 'twice-class', op, ns, tgt))
            d = dict(op='class-level ' + op, namespace=ns, target_class=tgt)
            r1, r2 = call(fn, cp), call(fn, cp)
            if r1[0] != 'ok' or r2[0] != 'ok':
                continue
            try:
                snap = sorted(c.tomof() for _, c in r2[1])
                if sorted(c.tomof() for _, c in r1[1]) != snap:
                    self.bad('history-same-query-twice-differs', **d)
                if any(a[0] is b[0] or a[1] is b[1] for a in r1[1] for b in r2[1]):
                    self.bad('history-same-query-twice-shares-objects', **d)
                for p, c in r1[1]:
                    p.classname = 'Spoilt'
                    c.classname, c.superclass = 'Spoilt', 'Spoilt'
                    for pr in list(c.properties.values()):
                        pr.reference_class = 'Spoilt'
                        pr.qualifiers.clear()
                    c.qualifiers.clear()
                    c.properties.clear()
                r3 = call(fn, cp)
                if sorted(c.tomof() for _, c in r2[1]) != snap:
                    self.bad('history-same-query-twice-shares-objects', **d)
                if r3[0] != 'ok' or sorted(c.tomof() for _, c in r3[1]) != snap:
                    self.bad('history-spoiling-an-answer-changes-the-next-answer', observed=repr(r3)[:300], **d)
            except Exception as e:  # noqa
                self.bad('history-class-level-raises-or-wrong-kind', observed=repr(e), **d)

    def pulls(self, src, flt):
        ns, label, xpath, xk = src
        c = self.conn
        kw = {k: v for k, v in zip(('AssocClass', 'ResultClass', 'Role', 'ResultRole'), flt) if v is not None}
        rkw = {k: v for k, v in (('ResultClass', flt[0]), ('Role', flt[2])) if v is not None}
        ea, er = h_assocs(self.m[ns], xk, *flt), h_refs(self.m[ns], xk, flt[0], flt[2])
        ops = [('OpenAssociatorInstancePaths', lambda: drain(c, c.OpenAssociatorInstancePaths(xpath, MaxObjectCount=1, **kw), 'paths', c.PullInstancePaths), False, ea),
               ('OpenAssociatorInstances', lambda: drain(c, c.OpenAssociatorInstances(xpath, MaxObjectCount=1, **kw), 'instances', c.PullInstancesWithPath), True, ea),
               ('IterAssociatorInstancePaths', lambda: list(c.IterAssociatorInstancePaths(xpath, MaxObjectCount=2, **kw)), False, ea),
               ('IterAssociatorInstances', lambda: list(c.IterAssociatorInstances(xpath, MaxObjectCount=2, **kw)), True, ea),
               ('OpenReferenceInstancePaths', lambda: drain(c, c.OpenReferenceInstancePaths(xpath, MaxObjectCount=1, **rkw), 'paths', c.PullInstancePaths), False, er),
               ('OpenReferenceInstances', lambda: drain(c, c.OpenReferenceInstances(xpath, MaxObjectCount=1, **rkw), 'instances', c.PullInstancesWithPath), True, er),
               ('IterReferenceInstancePaths', lambda: list(c.IterReferenceInstancePaths(xpath, MaxObjectCount=2, **rkw)), False, er),
               ('IterReferenceInstances', lambda: list(c.IterReferenceInstances(xpath, MaxObjectCount=2, **rkw)), True, er)]
        for name, fn, is_inst, exp in ops:
            R.case((self.name, self.nround, name, label, flt))
            d = dict(op=name, source=label, filters=kw if 'Assoc' in name else rkw)
            r = call(fn)
            if exp == INVALID:
                if not (r == ('cimerror', 4) or (r[0] == 'ok' and not r[1])):
                    self.bad('history-pull-nonexistent-class-filter-not-refused-or-empty', observed=repr(r)[:300], **d)
                continue
            try:
                got = srt(kpath(i.path if is_inst else i) for i in r[1]) if r[0] == 'ok' else None
            except Exception as e:  # noqa
                got = repr(e)
            if got != exp:
                self.bad('history-pull-or-iter-variant-differs-from-stored', expected=repr(exp)[:300],
                         observed=repr(got if r[0] == 'ok' else r)[:300], **d)


# ---------------------------------------------------------------- the histories
def run_history(fn, *a):
    try:
        fn(*a)
    except Abort:       # a step or a store check failed (recorded); the rest of that history would only echo it
        pass


def hist_subclass_ways(way, rnd, quick):
    """(a) a new subclass of an association class / of a result class / of an endpoint class appears (through `way`)
    after the filtered queries have been answered, is populated, and disappears again; the same names get another
    place in the tree of a second namespace, and later another place in the first one."""
    h = Hist('history/subclass/' + way, rnd, quick)
    a, b = 'root/a', 'root/b'
    for s in BASE_SPECS:
        h.add_class(a, s, way)
    h.add_ns(b, via='mof' if way == 'mof' else 'add', class_via=way)
    h.set_matrix(['A_Bin', 'A_Loose', 'A_Mixed', 'A_S', 'A_L'], ['N_Base', 'N_Other', 'N_S', 'N_T'],
                 ALL_ROLES[:6], focus=('A_Bin', 'A_Loose', 'A_S', 'N_Base', 'N_S', 'N_Other'),
                 targets=('N_Base', 'N_S', 'N_T', 'N_Other', 'A_Bin'))
    x, y, o = h.add_node(a, 'N_Base', 'x', way), h.add_node(a, 'N_Base', 'y'), h.add_node(a, 'N_Other', 'o', way)
    h.add_assoc(a, 'A_Bin', [('Ante', x), ('Dep', y)], way)
    h.add_assoc(a, 'A_Loose', [('Src', x), ('Dst', y)])
    h.add_assoc(a, 'A_Mixed', [('Left', x), ('Right', o)])
    bx, by, bz = h.add_node(b, 'N_Base', 'x'), h.add_node(b, 'N_Other', 'y', way), h.add_node(b, 'N_Base', 'z')
    h.add_assoc(b, 'A_Mixed', [('Left', bx), ('Right', by)], way)
    h.add_assoc(b, 'A_Bin', [('Ante', bz), ('Dep', bx)])
    h.round('initial')
    h.add_class(a, Spec('A_S', 'A_Bin', assoc=(way != 'add')), way)
    h.round('empty subclass of an association class added', minor=True)
    h.add_assoc(a, 'A_S', [('Ante', y), ('Dep', x)], way)
    h.round('instance of the new association subclass', full=(way == 'create'))
    h.add_class(a, Spec('N_S', 'N_Base'), way)
    h.round('empty subclass of the result/endpoint class added', minor=True)
    s = h.add_node(a, 'N_S', 's', way)
    h.add_assoc(a, 'A_Bin', [('Ante', x), ('Dep', s)], way)
    h.round('instance of the new result subclass associated', full=(way == 'create'))
    h.add_assoc(a, 'A_Loose', [('Src', s), ('Dst', y)], way)
    h.round('instance of the new endpoint subclass as source')
    h.add_class(a, Spec('N_T', 'N_S'), way)
    t = h.add_node(a, 'N_T', 't', way)
    h.add_assoc(a, 'A_S', [('Ante', s), ('Dep', t)])
    h.round('second level subclass', minor=True)
    h.add_class(b, Spec('N_S', 'N_Other'), way)
    h.add_class(b, Spec('A_S', 'A_Loose', assoc=True), way)
    bs = h.add_node(b, 'N_S', 's', way)
    h.add_assoc(b, 'A_Mixed', [('Left', bx), ('Right', bs)], way)
    h.add_assoc(b, 'A_S', [('Src', bx), ('Dst', bz)], way)
    h.round('same names elsewhere in the tree of the other namespace', full=(way == 'create'))
    h.add_class(a, Spec('A_L', 'A_Loose', assoc=True), way)
    al = h.add_assoc(a, 'A_L', [('Src', x), ('Dst', t)], way)
    h.round('subclass of the non-key association', minor=True)
    h.modify_assoc(al, 'Dst', s)
    h.round('reference value changed')
    h.delete_class(a, 'N_T')
    h.round('second level subclass deleted', minor=True)
    h.delete_class(a, 'A_S')
    h.round('association subclass deleted')
    h.delete_class(a, 'N_S')
    h.round('result/endpoint subclass deleted', full=(way == 'create'))
    h.add_class(a, Spec('N_S', 'N_Other'), way)
    s2 = h.add_node(a, 'N_S', 's', way)
    h.add_assoc(a, 'A_Mixed', [('Left', y), ('Right', s2)], way)
    h.add_class(a, Spec('A_S', 'A_Mixed', assoc=True), way)
    h.add_assoc(a, 'A_S', [('Left', x), ('Right', s2)], way)
    h.round('deleted names reused elsewhere in the tree', full=(way == 'create'))
    h.delete_class(b, 'A_S')
    h.delete_class(b, 'N_S')
    h.round('subclasses deleted in the other namespace', minor=True)


FLAVOUR1 = (Spec('N_Sub', 'N_Base'), Spec('N_SubSub', 'N_Sub'), Spec('A_BinSub', 'A_Bin', assoc=True),
            Spec('A_LooseSub', 'A_Loose', assoc=True), Spec('A_BinImp', 'A_Bin'))
FLAVOUR2 = (Spec('N_Sub', 'N_Other'), Spec('N_SubSub', 'N_Base'), Spec('A_BinSub', 'A_Loose', assoc=True),
            Spec('A_LooseSub', 'A_Bin', assoc=True))


def populate1(h, ns, via='create'):
    x, y, z, o = (h.add_node(ns, 'N_Base', 'x', via), h.add_node(ns, 'N_Sub', 'y'), h.add_node(ns, 'N_SubSub', 'z'),
                  h.add_node(ns, 'N_Other', 'o', via))
    h.add_assoc(ns, 'A_Bin', [('Ante', x), ('Dep', y)], via)
    h.add_assoc(ns, 'A_BinSub', [('Ante', y), ('Dep', z)], via)
    h.add_assoc(ns, 'A_Loose', [('Src', x), ('Dst', z)])
    h.add_assoc(ns, 'A_LooseSub', [('Src', z), ('Dst', y)], via)
    h.add_assoc(ns, 'A_Mixed', [('Left', z), ('Right', o)])
    h.add_assoc(ns, 'A_BinImp', [('Ante', z), ('Dep', x)], via)
    return x, y, z, o


def populate2(h, ns, via='create'):
    x, y, z, o = (h.add_node(ns, 'N_Base', 'x'), h.add_node(ns, 'N_Sub', 'y', via), h.add_node(ns, 'N_SubSub', 'z', via),
                  h.add_node(ns, 'N_Other', 'o'))
    h.add_assoc(ns, 'A_Bin', [('Ante', x), ('Dep', z)])
    h.add_assoc(ns, 'A_BinSub', [('Src', x), ('Dst', z)], via)
    h.add_assoc(ns, 'A_LooseSub', [('Ante', z), ('Dep', x)], via)
    h.add_assoc(ns, 'A_Mixed', [('Left', x), ('Right', y)], via)
    h.add_assoc(ns, 'A_Mixed', [('Left', z), ('Right', o)])
    return x, y, z, o


def hist_namespaces(rnd, quick):
    """(b) same-named classes with different subclass trees and different instances in several namespaces of one
    connection, the same filters asked alternately; namespaces come, go and come back with another tree."""
    h = Hist('history/namespaces', rnd, quick)
    a, b, c, dd = 'root/a', 'root/b', 'root/c', 'root/d'
    for s in BASE_SPECS + FLAVOUR1:
        h.add_class(a, s, 'mof')
    h.add_ns(b, via='add', specs=BASE_SPECS + FLAVOUR2, class_via='create')
    h.add_ns(c, via='mof', class_via='add')
    h.set_matrix(['A_Bin', 'A_Loose', 'A_Mixed', 'A_BinSub', 'A_LooseSub', 'A_BinImp'],
                 ['N_Base', 'N_Other', 'N_Sub', 'N_SubSub', 'N_Leaf'], ALL_ROLES[:6],
                 focus=('A_Bin', 'A_Loose', 'A_BinSub', 'A_LooseSub', 'N_Base', 'N_Sub', 'N_SubSub', 'N_Other'),
                 targets=('N_Base', 'N_Sub', 'N_SubSub', 'N_Other', 'A_BinSub'))
    ax, ay, az, ao = populate1(h, a)
    bx, by, bz, bo = populate2(h, b)
    cx, co = h.add_node(c, 'N_Base', 'x'), h.add_node(c, 'N_Other', 'o')
    h.add_assoc(c, 'A_Mixed', [('Left', cx), ('Right', co)])
    h.round('three namespaces, two trees')
    h.add_assoc(a, 'A_Bin', [('Ante', ax), ('Dep', cx)])
    cl = h.add_assoc(c, 'A_Loose', [('Src', cx), ('Dst', bx)], 'mof')
    h.round('associations across namespaces', minor=True)
    h.delete_class(a, 'N_SubSub')
    h.round('leaf deleted in one namespace only')
    h.add_class(b, Spec('N_Leaf', 'N_SubSub'), 'mof')
    bl = h.add_node(b, 'N_Leaf', 'z')
    h.add_assoc(b, 'A_Bin', [('Ante', bl), ('Dep', bz)])
    h.modify_assoc(cl, 'Dst', bl, via_ns=b)
    h.round('leaf added in the other namespace only')
    h.add_ns(dd, via='mof', specs=BASE_SPECS + FLAVOUR1, class_via='mof')
    populate1(h, dd, 'mof')
    h.round('fourth namespace with the first tree')
    h.remove_ns(b)
    h.round('namespace removed')
    h.add_ns(b, via='mof', specs=BASE_SPECS + FLAVOUR1, class_via='add')
    populate1(h, b, 'add')
    h.round('namespace back with the other tree')
    h.remove_ns(dd)
    h.add_ns(dd, via='add', specs=BASE_SPECS + FLAVOUR2, class_via='create')
    populate2(h, dd, 'mof')
    h.round('fourth namespace back with the second tree', minor=True)
    h.delete_class(a, 'A_Bin')
    h.round('association class with subclasses and instances deleted')
    h.remove_ns(c)
    h.round('third namespace removed')


def hist_instances(rnd, quick):
    """(c) instances come and go and reference values change between rounds (same instance paths reused with other
    ends), through every way instances can be written."""
    h = Hist('history/instances', rnd, quick)
    a, b = 'root/a', 'root/b'
    for s in BASE_SPECS + FLAVOUR1:
        h.add_class(a, s, 'create')
    h.add_ns(b, via='add', class_via='mof')
    h.set_matrix(['A_Bin', 'A_Loose', 'A_Mixed', 'A_BinSub', 'A_LooseSub'], ['N_Base', 'N_Other', 'N_Sub', 'N_SubSub'],
                 ALL_ROLES[:6], focus=('A_Loose', 'A_Bin', 'N_Base', 'N_Sub'),
                 targets=('N_Base', 'N_Sub', 'A_Loose'))
    n = [h.add_node(a, c, 'n%d' % i, WAYS[i % 3]) for i, c in enumerate(('N_Base', 'N_Sub', 'N_SubSub', 'N_Base',
                                                                        'N_Sub'))]
    o = [h.add_node(a, 'N_Other', 'o%d' % i) for i in range(2)]
    bn = [h.add_node(b, 'N_Base', 'n%d' % i, WAYS[i % 3]) for i in range(3)]
    h.round('nodes only')
    for k, way in enumerate(WAYS):
        l1 = h.add_assoc(a, 'A_Loose', [('Src', n[0]), ('Dst', n[1])], way, aid='L1')
        l2 = h.add_assoc(a, 'A_LooseSub', [('Src', n[2]), ('Dst', n[0])], way, aid='L2')
        b1 = h.add_assoc(a, 'A_Bin', [('Ante', n[k]), ('Dep', n[3])], way)
        h.add_assoc(a, 'A_Mixed', [('Left', n[1]), ('Right', o[k % 2])], way)
        x1 = h.add_assoc(b, 'A_Loose', [('Src', bn[0]), ('Dst', n[4])], 'create' if way == 'add' else way, aid='X1')
        h.round('written through ' + way)
        h.modify_assoc(l1, 'Dst', n[2 + k])
        h.modify_assoc(l2, 'Src', n[(k + 3) % 5])
        h.modify_assoc(x1, 'Src', bn[1 + k % 2], via_ns=(a, b)[k % 2])
        h.round('reference values changed')
        h.modify_assoc(l1, 'Src', n[2 + k])
        h.modify_assoc(x1, 'Dst', n[k])
        h.round('reference values changed again (both ends the same object)', minor=True)
        h.delete_assoc(l1)
        h.delete_assoc(b1)
        h.round('association instances deleted', minor=True)
        h.delete_assoc(x1, via_ns=(b, a)[k % 2])
        h.delete_assoc(l2)
        h.delete_node(n[1])
        n[1] = h.add_node(a, ('N_SubSub', 'N_Base', 'N_Sub')[k], 'n1', way)
        h.round('node replaced by one of another class under the same Id')


def hist_modify_class(rnd, quick):
    """ModifyClass (directly and through a MOF redefinition) changes the reference properties of an association class
    between rounds."""
    h = Hist('history/modify-class', rnd, quick)
    a, b = 'root/a', 'root/b'
    for s in BASE_SPECS:
        h.add_class(a, s, 'add')
    h.add_ns(b, via='add', class_via='create')
    h.set_matrix(['A_Top', 'A_Bin', 'A_Mixed'], ['N_Base', 'N_Other', 'N_Sub'], ('P', 'Q', 'R', 'Ante', 'Left'),
                 focus=('A_Top', 'N_Base', 'N_Other'), targets=('N_Base', 'N_Other', 'N_Sub', 'A_Top'))
    h.add_class(a, Spec('N_Sub', 'N_Base'), 'create')
    x, y, o, o2 = (h.add_node(a, 'N_Base', 'x'), h.add_node(a, 'N_Sub', 'y'), h.add_node(a, 'N_Other', 'o'),
                   h.add_node(a, 'N_Other', 'o2'))
    bx, bo = h.add_node(b, 'N_Base', 'x'), h.add_node(b, 'N_Other', 'o')
    h.add_assoc(a, 'A_Mixed', [('Left', y), ('Right', o)])
    h.round('before the class exists', minor=True)
    h.add_class(a, TOP_V1, 'create')
    h.add_class(b, TOP_V2, 'mof')
    h.round('class created, other definition in the other namespace')
    t1 = h.add_assoc(a, 'A_Top', [('P', x), ('Q', o)])
    t2 = h.add_assoc(b, 'A_Top', [('P', bx), ('Q', bx), ('R', bo)], 'mof')
    h.round('instances')
    h.delete_assoc(t1)
    h.delete_assoc(t2)
    h.modify_class(a, TOP_V2, 'modify')
    h.modify_class(b, TOP_V1, 'modify')
    h.round('definitions swapped through ModifyClass')
    t1 = h.add_assoc(a, 'A_Top', [('P', x), ('Q', y), ('R', o)], 'mof')
    h.add_assoc(b, 'A_Top', [('P', bx), ('Q', bo)], 'mof')
    h.round('instances of the modified classes')
    h.modify_assoc(t1, 'R', o2)
    h.round('non-key reference of the modified class changed', minor=True)
    h.delete_assoc(t1)
    h.modify_class(a, TOP_V1, 'mof')
    h.round('redefined through MOF in the default namespace')
    h.add_assoc(a, 'A_Top', [('P', y), ('Q', o2)], 'mof')
    h.add_class(a, Spec('A_TopSub', 'A_Top', assoc=True), 'mof')
    h.add_assoc(a, 'A_TopSub', [('P', x), ('Q', o2)], 'mof')
    h.round('instances after the MOF redefinition')


def hist_random(i, rnd, quick, nsteps):
    h = Hist('history/random/%d' % i, rnd, quick)
    for s in BASE_SPECS:
        h.add_class('root/a', s, rnd.choice(WAYS))
    h.add_ns('root/b', via=rnd.choice(('add', 'mof')), class_via=rnd.choice(WAYS))
    npool, apool = ['N_R1', 'N_R2', 'N_R3'], ['A_R1', 'A_R2', 'A_R3']
    h.set_matrix(['A_Bin', 'A_Loose', 'A_Mixed', 'A_Top'] + apool, ['N_Base', 'N_Other'] + npool, ALL_ROLES,
                 focus=('A_Bin', 'A_Loose', 'A_Mixed', 'N_Base', 'N_Other', 'A_R1', 'N_R1'),
                 targets=('N_Base', 'N_Other', 'N_R1', 'N_R2', 'A_R1'))
    if not quick:
        h.matrix[1] = tuple(a + b[1:len(a)] for a, b in zip(h.matrix[0], h.matrix[1]))
    cnt = [0]

    def node_classes(ns):
        return [c.name for c in h.m[ns].cls.values() if not c.refs]

    def assoc_classes(ns):
        return [c.name for c in h.m[ns].cls.values() if c.refs]

    def op_node():
        ns = rnd.choice(sorted(h.m))
        cnt[0] += 1
        h.add_node(ns, rnd.choice(node_classes(ns)), 'n%d' % cnt[0], rnd.choice(WAYS))
        return True

    def candidates(ns, t, cross):
        out = []
        for o in (sorted(h.m) if cross else [ns]):
            for n in h.m[o].nodes.values():
                if h.m[o].is_a(n[1], t) and (o == ns or h.m[o].cls[n[1].lower()].parent is None):
                    out.append(n)
        return out

    def op_assoc():
        ns = rnd.choice(sorted(h.m))
        cls = rnd.choice(assoc_classes(ns))
        mc = h.m[ns].cls[cls.lower()]
        cross = mc.parent is None and cls != 'A_Top' and rnd.random() < 0.3
        ends = []
        for r, t in mc.refs:
            cand = candidates(ns, t, cross)
            if not cand:
                return False
            ends.append((r, rnd.choice(cand)))
        rec = ARec(cls, '?', ends)
        def sig(r):
            return tuple((x.lower(), nodekey(e)) for x, e in r.ends if x in mc.keyroles)
        if not mc.idkey and any(o.cls.lower() == cls.lower() and sig(o) == sig(rec)
                                for m in h.m.values() for o in m.assocs.values()):
            return False
        if not all(h.m[o].exists(cls) for o in rec.nss()):
            return False
        h.add_assoc(ns, cls, ends, rnd.choice(WAYS if rec.nss() <= {ns} else ('create', 'mof')))
        return True

    def op_modify():
        opts = []
        for ns in sorted(h.m):
            for aid, rec in h.m[ns].assocs.items():
                mc = h.m[ns].cls[rec.cls.lower()]
                for r, t in mc.refs:
                    if r not in mc.keyroles:
                        opts.append((ns, aid, r, t))
        if not opts:
            return False
        ns, aid, r, t = rnd.choice(opts)
        old = dict(h.m[ns].assocs[aid].ends)[r]
        cand = [n for n in h.m[old[0]].nodes.values() if h.m[old[0]].is_a(n[1], t) and n != old and
                (old[0] == ns and len(h.holders(aid)) == 1 or h.m[old[0]].cls[n[1].lower()].parent is None)]
        if not cand:
            return False
        h.modify_assoc(aid, r, rnd.choice(cand), via_ns=ns)
        return True

    def op_delassoc():
        opts = [(ns, aid) for ns in sorted(h.m) for aid in h.m[ns].assocs]
        if not opts:
            return False
        ns, aid = rnd.choice(opts)
        h.delete_assoc(aid, ns)
        return True

    def op_delnode():
        opts = [n for ns in sorted(h.m) for n in h.m[ns].nodes.values()]
        if len(opts) < 4:
            return False
        h.delete_node(rnd.choice(opts))
        return True

    def op_subclass():
        ns = rnd.choice(sorted(h.m))
        if rnd.random() < 0.5:
            free = [c for c in npool if not h.m[ns].exists(c)]
            if not free:
                return False
            h.add_class(ns, Spec(rnd.choice(free), rnd.choice(node_classes(ns))), rnd.choice(WAYS))
        else:
            free = [c for c in apool if not h.m[ns].exists(c)]
            par = [c for c in assoc_classes(ns) if c != 'A_Top']
            if not free or not par:
                return False
            par = rnd.choice(par)       # the qualifier can only be restated below a class that carries it itself
            h.add_class(ns, Spec(rnd.choice(free), par, assoc=h.m[ns].cls[par.lower()].declared and rnd.random() < 0.7),
                        rnd.choice(WAYS))
        return True

    def op_delclass():
        ns = rnd.choice(sorted(h.m))
        opts = [c.name for c in h.m[ns].cls.values() if c.parent is not None or c.name == 'A_Top']
        if not opts:
            return False
        h.delete_class(ns, rnd.choice(opts))
        return True

    def op_top():
        ns = rnd.choice(sorted(h.m))
        mns = h.m[ns]
        if not mns.exists('A_Top'):
            h.add_class(ns, rnd.choice((TOP_V1, TOP_V2)), rnd.choice(WAYS))
            return True
        if not mns.leaf('A_Top') or any(r.cls == 'A_Top' for r in mns.assocs.values()):
            return False
        new = TOP_V2 if mns.cls['a_top'].spec is TOP_V1 else TOP_V1
        h.modify_class(ns, new, 'mof' if ns == 'root/a' and rnd.random() < 0.5 else 'modify')
        return True

    def op_addns():
        free = [ns for ns in ('root/b', 'root/c', 'root/d') if ns not in h.m]
        if not free:
            return False
        ns = rnd.choice(free)
        h.add_ns(ns, via=rnd.choice(('add', 'mof')), class_via=rnd.choice(WAYS))
        for _ in range(2):
            cnt[0] += 1
            h.add_node(ns, rnd.choice(('N_Base', 'N_Other')), 'n%d' % cnt[0], rnd.choice(WAYS))
        return True

    def op_rmns():
        opts = [ns for ns in sorted(h.m) if ns != 'root/a']
        if not opts:
            return False
        h.remove_ns(rnd.choice(opts))
        return True

    def op_refused():
        if rnd.random() < 0.25:
            w = rnd.choice(('add', 'mof'))
            return failed_batch(h, w, rnd.randrange(3), rnd.choice(BATCH_BAD[w]))
        rnd.choice(rejections(h, limit=1))[1]()
        return True

    ops = [op_refused] * 6 + [op_node] * 3 + [op_assoc] * 6 + [op_modify] * 3 + [op_delassoc] * 2 + [op_delnode] + [op_subclass] * 5 + \
        [op_delclass] * 2 + [op_top] * 2 + [op_addns, op_rmns]
    for ns in sorted(h.m):
        for k in range(3):
            cnt[0] += 1
            h.add_node(ns, ('N_Base', 'N_Base', 'N_Other')[k], 'n%d' % cnt[0])
    for _ in range(4):
        op_assoc()
    h.round('initial')
    for _ in range(nsteps):
        for _ in range(20):
            op = rnd.choice(ops)
            if op():
                break
        h.round(op.__name__[3:])


def probe_mof_class_cache():
    """compile_mof_string() of an instance must go by the class as it is stored now."""
    c = FakedWBEMConnection(default_namespace='root/a')
    steps = ['compile_mof_string: qualifier declarations + ' + BASE_SPECS[0].mof() + ' ' + BASE_SPECS[2].mof(),
             'DeleteClass A_Bin', 'CreateClass ' + BASE_SPECS[3].mof().replace('A_Loose', 'A_Bin'),
             'CreateInstance N_Base.Id=x', 'compile_mof_string: instance of A_Bin { Id = "b"; Src = ...x; Dst = ...x; }']
    R.case(('mof-class-cache',))
    c.compile_mof_string(QUAL_MOF + BASE_SPECS[0].mof() + BASE_SPECS[2].mof())
    c.DeleteClass('A_Bin')
    l = BASE_SPECS[3]
    c.CreateClass(Spec('A_Bin', assoc=True, idkey=True, refs=l.refs).cimclass())
    x = c.CreateInstance(CIMInstance('N_Base', properties={'Id': 'x'}))
    r = call(c.compile_mof_string, 'instance of A_Bin { Id = "b"; Src = "root/a:N_Base.Id=\\"x\\""; '
                                   'Dst = "root/a:N_Base.Id=\\"x\\""; };')
    got = call(lambda: srt(kpath(p) for p in c.ReferenceNames(x, Role='src')))
    exp = ('ok', [('root/a', 'a_bin', (('id', 'b'),))])
    if r[0] != 'ok' or got != exp:
        stale = r[0] == 'exc' and r[1] == 'MOFDependencyError' and "its property 'Id'" in r[2]
        viol(K_MOFCACHE if stale else 'mof-instance-after-class-change-diverges', steps=steps,
             what='the MOF compiler object of a mock connection remembers every class it has seen (per namespace '
                  'name) and never forgets it, so after the class was deleted and created again with other properties '
                  '(or modified through ModifyClass, or its namespace removed and added again) '
                  'compile_mof_string("instance of ...") still goes by the old definition: with A_Bin{Ante, Dep} '
                  'compiled, deleted and re-created as A_Bin{Id, Src, Dst}, compiling instance of A_Bin { Id=..; '
                  'Src=..; Dst=..; } fails with "property \'Id\' is not declared in the class" and the association '
                  'never reaches the repository',
             compile_result=repr(r)[:300], expected=repr(exp), observed=repr(got)[:300])


def probe_delete_through_end_namespace():
    """An association created in a namespace that holds none of its ends, deleted through one of the end namespaces,
    is gone everywhere (the documented contract: DeleteInstance deletes the instance and its shadow instances)."""
    h = Hist('probe/delete-through-end-namespace', random.Random(0), True)
    try:
        for s in BASE_SPECS:
            h.add_class('root/a', s, 'add')
        h.add_ns('root/b')
        h.add_ns('root/c')
        x, y = h.add_node('root/a', 'N_Base', 'x'), h.add_node('root/b', 'N_Base', 'y')
        aid = h.add_assoc('root/c', 'A_Loose', [('Src', x), ('Dst', y)])
        rec = h.m['root/c'].assocs[aid]
        h.step('DeleteInstance A_Loose %s through root/a' % aid, h.conn.DeleteInstance, h.apath(rec, 'root/a'))
        R.case(('delete-through-end-namespace',))
        left = {ns: call(lambda: srt(kpath(p) for p in h.conn.EnumerateInstanceNames('A_Loose', namespace=ns)))
                for ns in sorted(h.m)}
        if any(v != ('ok', []) for v in left.values()):
            only_c = left == {'root/a': ('ok', []), 'root/b': ('ok', []),
                              'root/c': ('ok', [rec.key('root/c', h.m['root/c'].cls['a_loose'])])}
            viol(K_ORPHAN if only_c else 'delete-through-end-namespace-diverges', steps=h.steps,
                 what='DeleteInstance (and ModifyInstance) of a cross-namespace association work out the other copies '
                      'from the namespaces of the reference values only, so the copy in the namespace the association '
                      'was created in is left behind when that namespace holds none of the ends and the request goes '
                      'through another copy: A_Loose(Src=root/a:N_Base.Id=x, Dst=root/b:N_Base.Id=y) created in root/c '
                      'and deleted through root/a is still enumerated in root/c',
                 expected='no A_Loose instance in any namespace', observed=repr(left)[:400])
    except Abort:
        pass


def probe_mof_redefinition_namespace():
    """compile_mof_string(namespace=X) of a class that already exists in X must change the class stored in X (seen
    through the class-level traversal of X), and nothing in the default namespace."""
    c = FakedWBEMConnection(default_namespace='root/a')
    c.add_namespace('root/b')
    v1 = Spec('A_Top', assoc=True, refs=(('P', 'N_Base', True), ('Q', 'N_Base', True)))
    v2 = Spec('A_Top', assoc=True, refs=(('P', 'N_Base', True), ('Q', 'N_Other', True)))
    base = QUAL_MOF + BASE_SPECS[0].mof() + BASE_SPECS[1].mof()
    steps = []
    for ns in ('root/a', 'root/b'):
        steps.append('compile_mof_string(namespace=%r): %s' % (ns, base + v1.mof()))
        c.compile_mof_string(base + v1.mof(), namespace=ns)
    steps.append('compile_mof_string(namespace=\'root/b\'): %s' % v2.mof())
    R.case(('mof-redefinition', 'root/b'))
    r = call(c.compile_mof_string, v2.mof(), namespace='root/b')
    got = {ns: call(lambda: sorted(p.classname for p in c.AssociatorNames(CIMClassName('N_Base', namespace=ns))))
           for ns in ('root/a', 'root/b')}
    exp = {'root/a': ('ok', ['N_Base']), 'root/b': ('ok', ['N_Other'])}
    if r[0] != 'ok' or got != exp:
        wrong = {'root/a': ('ok', ['N_Other']), 'root/b': ('ok', ['N_Base'])}
        viol(K_MOFNS if r[0] == 'ok' and got == wrong else 'mof-redefinition-in-namespace-diverges', steps=steps,
             what='compile_mof_string(mof, namespace=X) of a class that already exists in X applies the ModifyClass '
                  'to the same-named class of the connection\'s DEFAULT namespace instead of X (MOF compiler passes '
                  'the namespace positionally, the mock\'s MOF connection only looks at the keyword), so the '
                  'class-level traversal of both namespaces no longer matches what was defined: after redefining '
                  '[Association] A_Top{N_Base REF P; N_Base REF Q} as {N_Base REF P; N_Other REF Q} in root/b, '
                  'AssociatorNames(root/b:N_Base) still answers [N_Base] and AssociatorNames(root/a:N_Base) now '
                  'answers [N_Other]',
             compile_result=repr(r)[:200], expected=repr(exp), observed=repr(got))


# ---------------------------------------------------------------- main
# ---------------------------------------------------------------- refused operations between the rounds
# The model ignores a refused single-object operation entirely: whatever the server kept of it shows up in the next
# round (stores and traversal against the unchanged book). Batches (add_cimobjects with a list, compile_mof_string with
# several elements) are different: the unchanged tree keeps the elements before the invalid one (recorded under C11 as
# known:add_cimobjects-batch-prefix-kept / known:compile_mof_string-prefix-kept), so for a failed batch the book takes
# the prefix as applied and nothing from the invalid element on - that the traversal matches THAT is what is checked.
def unsynced(cls, props, path):
    """Instance whose path is set after the properties (the constructor would re-key the path from key properties)."""
    i = CIMInstance(cls, properties=props)
    i.path = path
    return i


def rejections(h, class_ns=None, limit=None):
    """(kind, thunk) for every kind of operation the server has to refuse that the present state allows."""
    c, rnd, out = h.conn, h.rnd, []
    nss = sorted(h.m)
    inst = CIMInstance

    def add(kind, text, fn, *a, **k):
        about = k.pop('about', ())
        out.append((kind, lambda: h.refuse(kind, text, fn, *a, about=[nodekey(n) for n in about], **k)))

    def some(seq):
        seq = list(seq)
        return rnd.choice(seq) if seq else None

    def roots(ns, t='N_Base'):      # nodes of a root class (safe as ends seen from another namespace)
        return [n for n in h.m[ns].nodes.values() if n[1].lower() == t.lower()]

    def ghost(ns):
        return (ns, 'N_Base', 'no-such')

    def props(rec, mc, ends=None):
        p = {r: h.npath(e) for r, e in (ends or rec.ends)}
        if mc.idkey:
            p['Id'] = rec.aid
        return p

    recs = [(ns, aid, rec, h.m[ns].cls[rec.cls.lower()]) for ns in nss for aid, rec in sorted(h.m[ns].assocs.items())]
    intra = [t for t in recs if h.holders(t[1]) == [t[0]]]
    intra_id = [t for t in intra if t[3].idkey and all(x == 'N_Base' for _, x in t[3].refs)]
    cross = [t for t in recs if len(h.holders(t[1])) > 1 and t[0] == h.req[t[1]]]
    loose = [t for t in intra if [r for r, _ in t[3].refs if r not in t[3].keyroles]]    # has a non-key reference
    ns0 = 'root/a'
    n0 = some(n for ns in nss for n in h.m[ns].nodes.values())

    # ---- CreateInstance / add_cimobjects / compile_mof_string of ONE instance
    if n0:
        add('create/existing-node', '%s:%s.Id=%s' % n0, c.CreateInstance, inst(n0[1], properties={'Id': n0[2]}),
            namespace=n0[0], about=[n0])
        add('add/existing-node', '%s:%s.Id=%s' % n0, c.add_cimobjects,
            inst(n0[1], properties={'Id': n0[2]}, path=h.npath(n0)), namespace=n0[0], about=[n0])
        add('add/instance-without-path', n0[1], c.add_cimobjects, inst(n0[1], properties={'Id': 'np'}), namespace=n0[0])
        add('create/undeclared-property', n0[1], c.CreateInstance, inst(n0[1], properties={'Id': 'up', 'Bogus': 'x'}),
            namespace=n0[0])
        add('mof/undeclared-property', n0[1], c.compile_mof_string,
            'instance of %s { Id = "up"; Bogus = "x"; };' % n0[1], namespace=n0[0])
        add('create/namespace-missing', n0[1], c.CreateInstance, inst(n0[1], properties={'Id': 'nm'}),
            namespace='root/zz')
        add('modify/key-of-node', '%s:%s.Id=%s' % n0, c.ModifyInstance, unsynced(n0[1], {'Id': 'rekeyed'}, h.npath(n0)),
            about=[n0])
        add('modify/namespace-missing', n0[1], c.ModifyInstance,
            inst(n0[1], properties={'Id': n0[2]}, path=h.npath(('root/zz',) + n0[1:])))
        add('delete/namespace-missing', n0[1], c.DeleteInstance, h.npath(('root/zz',) + n0[1:]))
    for ns in nss[:2]:
        add('create/class-missing', ns, c.CreateInstance, inst('N_Nope', properties={'Id': 'q'}), namespace=ns)
        add('mof/instance-of-unknown-class', ns, c.compile_mof_string, 'instance of N_Nope { Id = "q"; };', namespace=ns)
        add('modify/missing-node', ns, c.ModifyInstance, inst('N_Base', properties={'Id': 'no-such'}, path=h.npath(ghost(ns))))
        add('delete/missing-node', ns, c.DeleteInstance, h.npath(ghost(ns)))
        add('delete/class-missing', ns, c.DeleteInstance, CIMInstanceName('N_Nope', {'Id': 'x'}, namespace=ns))
    t = some(x for x in intra if not x[3].idkey)
    if t:
        ns, aid, rec, mc = t
        add('create/existing-association-key-references', aid, c.CreateInstance, inst(rec.cls, properties=props(rec, mc)),
            namespace=ns, about=[e for _, e in rec.ends])
        add('add/existing-association', aid, c.add_cimobjects,
            inst(rec.cls, properties=props(rec, mc), path=h.apath(rec, ns)), namespace=ns, about=[e for _, e in rec.ends])
        add('create/missing-key-reference', rec.cls, c.CreateInstance,
            inst(rec.cls, properties={rec.ends[0][0]: h.npath(rec.ends[0][1])}), namespace=ns, about=[rec.ends[0][1]])
        add('create/reference-given-as-string', rec.cls, c.CreateInstance,
            inst(rec.cls, properties=dict(props(rec, mc), **{rec.ends[0][0]: 'x'})), namespace=ns)
        add('create/undeclared-reference', rec.cls, c.CreateInstance,
            inst(rec.cls, properties=dict(props(rec, mc), Bogus=h.npath(rec.ends[0][1]))), namespace=ns,
            about=[e for _, e in rec.ends])
        e0 = rec.ends[0][1]
        bad_ends = [(rec.ends[0][0], e0)] + [(r, ghost(ns)) for r, _ in rec.ends[1:]]
        add('create/reference-target-missing', rec.cls, c.CreateInstance,
            inst(rec.cls, properties=props(rec, mc, bad_ends)), namespace=ns, about=[e0])
        add('mof/reference-target-missing', rec.cls, c.compile_mof_string, 'instance of %s { %s};' % (
            rec.cls, ''.join('%s = "%s:%s.Id=\\"%s\\""; ' % ((r,) + e) for r, e in bad_ends)), namespace=ns, about=[e0])
        add('modify/key-reference', aid, c.ModifyInstance,
            unsynced(rec.cls, {rec.ends[-1][0]: h.npath(e0)}, h.apath(rec, ns)), about=[e for _, e in rec.ends])
        h.mof_saw(ns, [x.name for x in h.m[ns].chain(rec.cls)])
    for t in ([some(intra_id)] if intra_id else []):
        ns, aid, rec, mc = t
        (r1, e1), (r2, e2) = rec.ends[0], rec.ends[-1]
        add('create/existing-association-id', aid, c.CreateInstance,
            inst(rec.cls, properties={'Id': aid, r1: h.npath(e2), r2: h.npath(e1)}), namespace=ns, about=[e1, e2])
        add('create/missing-key-id', rec.cls, c.CreateInstance,
            inst(rec.cls, properties={r1: h.npath(e1), r2: h.npath(e2)}), namespace=ns, about=[e1, e2])
        add('modify/key-id-of-association', aid, c.ModifyInstance, unsynced(rec.cls, {'Id': 'rekeyed'}, h.apath(rec, ns)),
            about=[e1, e2])
        add('modify/missing-association', rec.cls, c.ModifyInstance,
            inst(rec.cls, properties={r2: h.npath(e1)}, path=CIMInstanceName(rec.cls, {'Id': 'no-such'}, namespace=ns)),
            about=[e1])
        add('delete/missing-association', rec.cls, c.DeleteInstance, CIMInstanceName(rec.cls, {'Id': 'no-such'}, namespace=ns))
        add('create/reference-target-in-missing-namespace', rec.cls, c.CreateInstance,
            inst(rec.cls, properties={'Id': 'tm', r1: h.npath(e1), r2: h.npath(('root/zz',) + e2[1:])}), namespace=ns,
            about=[e1])
        hp = h.npath(e2)
        hp.host = 'elsewhere'
        add('create/reference-target-with-host', rec.cls, c.CreateInstance,
            inst(rec.cls, properties={'Id': 'th', r1: h.npath(e1), r2: hp}), namespace=ns, about=[e1, e2])
        np_ = h.npath(e2)
        np_.namespace = None
        add('create/reference-target-without-namespace', rec.cls, c.CreateInstance,
            inst(rec.cls, properties={'Id': 'tn', r1: h.npath(e1), r2: np_}), namespace=ns, about=[e1, e2])
    # cross-namespace creations that collide with an association living in ONE namespace only
    plain = [t for t in intra_id if t[3].parent is None and t[3].declared]
    rnd.shuffle(plain)
    for ns, aid, rec, mc in plain[:limit]:
        r1, r2 = rec.ends[0][0], rec.ends[-1][0]
        for o in nss:
            oc = h.m[o].cls.get(rec.cls.lower())
            na, nb = some(roots(ns)), some(roots(o))
            if o == ns or oc is None or oc.parent is not None or not na or not nb:
                continue
            add('create/cross-namespace-key-exists-in-request-namespace-only', '%s %s in %s, far end in %s' % (
                rec.cls, aid, ns, o), c.CreateInstance,
                inst(rec.cls, properties={'Id': aid, r1: h.npath(na), r2: h.npath(nb)}), namespace=ns, about=[na, nb])
            add('mof/cross-namespace-key-exists-in-request-namespace-only', '%s %s in %s, far end in %s' % (
                rec.cls, aid, ns, o), c.compile_mof_string, 'instance of %s { Id = "%s"; %s = "%s:%s.Id=\\"%s\\""; '
                '%s = "%s:%s.Id=\\"%s\\""; };' % ((rec.cls, aid, r1) + na + (r2,) + nb), namespace=ns, about=[na, nb])
            h.mof_saw(ns, [rec.cls])
            add('create/cross-namespace-key-exists-in-far-end-namespace-only', '%s %s in %s, requested in %s' % (
                rec.cls, aid, ns, o), c.CreateInstance,
                inst(rec.cls, properties={'Id': aid, r1: h.npath(nb), r2: h.npath(na)}), namespace=o, about=[na, nb])
            for third in nss:
                tc = h.m[third].cls.get(rec.cls.lower())
                if third in (ns, o) or tc is None or tc.parent is not None:
                    continue
                for x, y in ((na, nb), (nb, na)):
                    add('create/cross-namespace-key-exists-in-one-of-two-far-end-namespaces', '%s %s in %s, requested '
                        'in %s, other far end in %s' % (rec.cls, aid, ns, third, o), c.CreateInstance,
                        inst(rec.cls, properties={'Id': aid, r1: h.npath(x), r2: h.npath(y)}), namespace=third,
                        about=[na, nb])
            break
    for ns, aid, rec, mc in cross[:limit]:
        other = [o for o in h.holders(aid) if o != ns][0]
        add('create/cross-namespace-association-again-through-other-namespace', aid, c.CreateInstance,
            inst(rec.cls, properties=props(rec, mc)), namespace=other, about=[e for _, e in rec.ends])
        nk = [r for r, _ in mc.refs if r not in mc.keyroles]
        if nk:
            far = dict(rec.ends)[nk[0]]
            add('modify/cross-namespace-through-other-copy-to-missing-target', aid, c.ModifyInstance,
                inst(rec.cls, properties={nk[0]: h.npath(ghost(far[0]))}, path=h.apath(rec, other)),
                about=[e for _, e in rec.ends])
            third = some(o for o in nss if o not in rec.nss() | {ns} and h.m[o].exists(rec.cls) and roots(o))
            if third:
                add('modify/cross-namespace-end-to-third-namespace', aid, c.ModifyInstance,
                    inst(rec.cls, properties={nk[0]: h.npath(roots(third)[0])}, path=h.apath(rec, ns)),
                    about=[e for _, e in rec.ends] + [roots(third)[0]])
        gone = some(o for o in nss if o not in h.holders(aid) and h.m[o].exists(rec.cls))
        if gone and mc.idkey:
            add('delete/through-namespace-without-copy', aid, c.DeleteInstance,
                CIMInstanceName(rec.cls, {'Id': aid}, namespace=gone), about=[e for _, e in rec.ends])
    # ---- ModifyInstance of a non-key reference
    t = some(loose)
    if t:
        ns, aid, rec, mc = t
        nk = [r for r, _ in mc.refs if r not in mc.keyroles]
        ends = dict(rec.ends)
        path = h.apath(rec, ns)
        about = [e for _, e in rec.ends]
        add('modify/end-to-missing-target', aid, c.ModifyInstance,
            inst(rec.cls, properties={nk[-1]: h.npath(ghost(ns))}, path=path), about=about)
        add('modify/end-to-null', aid, c.ModifyInstance,
            inst(rec.cls, properties=[CIMProperty(nk[-1], None, type='reference')], path=path), about=about)
        add('modify/undeclared-property', aid, c.ModifyInstance, inst(rec.cls, properties={'Bogus': 'x'}, path=path),
            about=about)
        add('modify/class-differs-from-path', aid, c.ModifyInstance,
            inst('N_Base', properties={nk[-1]: h.npath(ends[nk[0]])}, path=path), about=about)
        alt = some(n for n in h.m[ns].nodes.values() if h.m[ns].is_a(n[1], dict(mc.refs)[nk[0]]) and n != ends[nk[0]])
        if alt and len(nk) > 1:     # the valid change comes first: written before the invalid one is looked at?
            add('modify/one-valid-one-invalid-end', aid, c.ModifyInstance,
                inst(rec.cls, properties=[CIMProperty(nk[0], h.npath(alt)), CIMProperty(nk[-1], h.npath(ghost(ns)))],
                     path=path), about=about + [alt])
            add('modify/valid-end-and-undeclared-property', aid, c.ModifyInstance,
                inst(rec.cls, properties=[CIMProperty(nk[0], h.npath(alt)), CIMProperty('Bogus', 'x')], path=path),
                about=about + [alt])
    done = set()
    for ns, aid, rec, mc in loose:
        if h.holders(aid) != [ns] or (limit and rec.cls in done):
            continue
        done.add(rec.cls)
        nk = [r for r, _ in mc.refs if r not in mc.keyroles]
        without = some(o for o in nss if o != ns and not h.m[o].exists(rec.cls) and roots(o))
        if without:
            add('modify/end-to-namespace-without-the-class', '%s %s -> %s' % (rec.cls, aid, without), c.ModifyInstance,
                inst(rec.cls, properties={nk[-1]: h.npath(roots(without)[0])}, path=h.apath(rec, ns)),
                about=[e for _, e in rec.ends] + [roots(without)[0]])
            add('create/class-missing-in-far-end-namespace', '%s -> %s' % (rec.cls, without), c.CreateInstance,
                inst(rec.cls, properties=dict(props(rec, mc, [(r, e) for r, e in rec.ends if r != nk[-1]]),
                                              **{'Id': 'cm', nk[-1]: h.npath(roots(without)[0])})),
                namespace=ns, about=[e for _, e in rec.ends] + [roots(without)[0]])
        nocopy = some(o for o in nss if o != ns and h.m[o].exists(rec.cls) and roots(o))
        if nocopy:
            add('modify/end-to-namespace-without-a-copy', '%s %s -> %s' % (rec.cls, aid, nocopy), c.ModifyInstance,
                inst(rec.cls, properties={nk[-1]: h.npath(roots(nocopy)[0])}, path=h.apath(rec, ns)),
                about=[e for _, e in rec.ends] + [roots(nocopy)[0]])
    # ---- classes, qualifier declarations, namespaces
    ns = class_ns or some(nss)
    mns = h.m[ns]
    orphan = Spec('N_Orphan', 'N_Nope')
    add('class/create-missing-superclass', ns, c.CreateClass, orphan.cimclass(), namespace=ns)
    add('class/add-missing-superclass', ns, c.add_cimobjects, orphan.cimclass(), namespace=ns)
    add('class/mof-missing-superclass', ns, c.compile_mof_string, orphan.mof(), namespace=ns)
    ex = some(mns.cls.values())
    add('class/create-existing', ex.name, c.CreateClass, ex.spec.cimclass(), namespace=ns)
    add('class/add-existing', ex.name, c.add_cimobjects, ex.spec.cimclass(), namespace=ns)
    badref = Spec('A_BadRef', assoc=True, refs=(('P', 'N_Nope', True), ('Q', 'N_Base', True)))
    add('class/create-reference-to-missing-class', ns, c.CreateClass, badref.cimclass(), namespace=ns)
    add('class/mof-reference-to-missing-class', ns, c.compile_mof_string, badref.mof(), namespace=ns)
    add('class/create-association-below-ordinary-class', ns, c.CreateClass,
        Spec('A_BadParent', 'N_Base', assoc=True).cimclass(), namespace=ns)
    add('class/create-undeclared-qualifier', ns, c.CreateClass,
        CIMClass('N_BadQual', qualifiers={'Bogus': CIMQualifier('Bogus', True)}), namespace=ns)
    add('class/create-namespace-missing', 'root/zz', c.CreateClass, Spec('N_X', idkey=True).cimclass(), namespace='root/zz')
    add('class/modify-missing', ns, c.ModifyClass, CIMClass('N_Nope'), namespace=ns)
    add('class/delete-missing', ns, c.DeleteClass, 'N_Nope', namespace=ns)
    add('class/delete-namespace-missing', 'root/zz', c.DeleteClass, 'N_Base', namespace='root/zz')
    parent = some(x for x in mns.cls.values() if not mns.leaf(x.name))
    if parent:
        add('class/modify-with-subclasses', parent.name, c.ModifyClass, parent.spec.cimclass(), namespace=ns)
    used = {n[1].lower() for n in mns.nodes.values()} | {r.cls.lower() for r in mns.assocs.values()}
    busy = some(x for x in mns.cls.values() if mns.leaf(x.name) and x.name.lower() in used)
    if busy:
        add('class/modify-with-instances', busy.name, c.ModifyClass, busy.spec.cimclass(), namespace=ns)
    if ns0 in h.m:       # a MOF redefinition only reaches the right class in the default namespace (K_MOFNS)
        m0 = h.m[ns0]
        used0 = {n[1].lower() for n in m0.nodes.values()} | {r.cls.lower() for r in m0.assocs.values()}
        stuck = some(x for x in m0.cls.values() if not m0.leaf(x.name) or x.name.lower() in used0)
        if stuck:
            add('class/mof-redefinition-with-subclasses-or-instances', stuck.name, c.compile_mof_string, stuck.spec.mof(),
                namespace=ns0)
            h.mof_saw(ns0, [stuck.name])
    free = some(x for x in mns.cls.values() if mns.leaf(x.name) and x.name.lower() not in used and x.parent)
    if free:
        other = 'N_Other' if free.parent != 'N_Other' else 'N_Base'
        add('class/modify-superclass-changed', free.name, c.ModifyClass,
            Spec(free.name, other, assoc=free.spec.assoc).cimclass(), namespace=ns)
        add('class/modify-superclass-dropped', free.name, c.ModifyClass, CIMClass(free.name), namespace=ns)
    add('qualifier/delete-in-use', ns, c.DeleteQualifier, 'Key', namespace=ns)
    add('qualifier/delete-missing', ns, c.DeleteQualifier, 'Bogus', namespace=ns)
    add('namespace/remove-non-empty', ns, c.remove_namespace, ns)
    add('namespace/remove-missing', 'root/zz', c.remove_namespace, 'root/zz')
    add('namespace/add-existing', ns, c.add_namespace, ns)
    return out


BATCH_BAD = {'add': ('existing-instance', 'class-with-missing-superclass'),
             'mof': ('instance-of-unknown-class', 'class-with-missing-superclass', 'syntax-error',
                     'cross-namespace-key-exists')}


def failed_batch(h, way, pos, badkind):
    """A batch of two valid elements (a new node; a new association from an existing node to it) with an invalid one at
    position pos. Returns False if the state does not allow it. The book takes the prefix as applied (see above)."""
    c = h.conn
    ns = 'root/a'
    mns = h.m[ns]
    old = [n for n in mns.nodes.values() if mns.is_a(n[1], 'N_Base')]
    if not old or not mns.exists('A_Loose'):
        return False
    x = h.rnd.choice(old)
    h.seq += 1
    new, aid = (ns, 'N_Base', 'bn%d' % h.seq), 'b%d' % h.seq
    rec = ARec('A_Loose', aid, [('Src', x), ('Dst', new)])
    if way == 'mof' and any((ns, k.lower()) in h.mof_stale for k in ('N_Base', 'A_Loose')):
        way = 'add'
        badkind = BATCH_BAD['add'][pos % 2]
    clash = None
    if badkind == 'cross-namespace-key-exists':
        cand = [(r, o) for r in mns.assocs.values() if r.cls == 'A_Loose' and h.holders(r.aid) == [ns]
                for o in sorted(h.m) if o != ns and h.m[o].exists('A_Loose') and
                [n for n in h.m[o].nodes.values() if n[1] == 'N_Base']]
        if not cand:
            badkind = 'instance-of-unknown-class'
        else:
            r, o = h.rnd.choice(cand)
            clash = (r.aid, [n for n in h.m[o].nodes.values() if n[1] == 'N_Base'][0])
    if way == 'add':
        good = [CIMInstance('N_Base', properties={'Id': new[2]}, path=h.npath(new)),
                CIMInstance('A_Loose', properties=[CIMProperty('Id', aid)] + [
                    CIMProperty(r, h.npath(e), type='reference', reference_class='N_Base') for r, e in rec.ends],
                    path=CIMInstanceName('A_Loose', {'Id': aid}, namespace=ns))]
        bad = {'existing-instance': CIMInstance(x[1], properties={'Id': x[2]}, path=h.npath(x)),
               'class-with-missing-superclass': Spec('N_Orphan', 'N_Nope').cimclass()}[badkind]
        arg = good[:pos] + [bad] + good[pos:]
        fn, shown = c.add_cimobjects, 'add_cimobjects'
    else:
        good = ['instance of N_Base { Id = "%s"; };' % new[2],
                'instance of A_Loose { Id = "%s"; %s};' % (aid, ''.join(
                    '%s = "%s:%s.Id=\\"%s\\""; ' % ((r,) + e) for r, e in rec.ends))]
        bad = {'instance-of-unknown-class': 'instance of N_Nope { Id = "q"; };',
               'class-with-missing-superclass': Spec('N_Orphan', 'N_Nope').mof(), 'syntax-error': 'class {{ ;',
               'cross-namespace-key-exists': clash and 'instance of A_Loose { Id = "%s"; Src = "%s:%s.Id=\\"%s\\""; '
               'Dst = "%s:%s.Id=\\"%s\\""; };' % ((clash[0],) + x + clash[1])}[badkind]
        arg = ' '.join(good[:pos] + [bad] + good[pos:])
        fn, shown = c.compile_mof_string, 'compile_mof_string'
        h.mof_saw(ns, ['N_Base', 'A_Loose'])
    h.refuse('batch/%s/%s/at-%d' % (way, badkind, pos), '%s in %s: [%s] with the invalid element at position %d; new node '
             '%s, new association %s %s' % (shown, ns, badkind, pos, new[2], aid, 'Src=%s:%s.Id=%s' % x), fn, arg,
             namespace=ns, about=[nodekey(x), nodekey(new)] + ([nodekey(clash[1])] if clash else []))
    if pos >= 1:        # prefix applied (C11: known:add_cimobjects-batch-prefix-kept / compile_mof_string-prefix-kept)
        mns.nodes[nodekey(new)] = new
    if pos >= 2:
        mns.assocs[aid] = rec
        h.req[aid] = ns
    h.steps[-1] += ' (booked: the %d element(s) before it)' % pos
    return True


EXPECTED_KINDS = '''create/existing-node add/existing-node add/instance-without-path create/undeclared-property
mof/undeclared-property create/namespace-missing modify/key-of-node modify/namespace-missing delete/namespace-missing
create/class-missing mof/instance-of-unknown-class modify/missing-node delete/missing-node delete/class-missing
create/existing-association-key-references add/existing-association create/missing-key-reference
create/reference-given-as-string create/undeclared-reference create/reference-target-missing
mof/reference-target-missing modify/key-reference create/existing-association-id create/missing-key-id
modify/key-id-of-association modify/missing-association delete/missing-association
create/reference-target-in-missing-namespace create/reference-target-with-host
create/reference-target-without-namespace create/cross-namespace-key-exists-in-request-namespace-only
mof/cross-namespace-key-exists-in-request-namespace-only create/cross-namespace-key-exists-in-far-end-namespace-only
create/cross-namespace-key-exists-in-one-of-two-far-end-namespaces
create/cross-namespace-association-again-through-other-namespace
modify/cross-namespace-through-other-copy-to-missing-target modify/cross-namespace-end-to-third-namespace
delete/through-namespace-without-copy modify/end-to-missing-target modify/end-to-null modify/undeclared-property
modify/class-differs-from-path modify/one-valid-one-invalid-end modify/valid-end-and-undeclared-property
modify/end-to-namespace-without-the-class create/class-missing-in-far-end-namespace
modify/end-to-namespace-without-a-copy class/create-missing-superclass class/add-missing-superclass
class/mof-missing-superclass class/create-existing class/add-existing class/create-reference-to-missing-class
class/mof-reference-to-missing-class class/create-association-below-ordinary-class class/create-undeclared-qualifier
class/create-namespace-missing class/modify-missing class/delete-missing class/delete-namespace-missing
class/modify-with-subclasses class/modify-with-instances class/mof-redefinition-with-subclasses-or-instances
class/modify-superclass-changed class/modify-superclass-dropped qualifier/delete-in-use qualifier/delete-missing
namespace/remove-non-empty namespace/remove-missing namespace/add-existing'''.split()
ALWAYS = ('create/cross-namespace', 'mof/cross-namespace', 'modify/one-valid', 'modify/valid-end', 'modify/end-to-namespace',
          'modify/cross-namespace', 'create/class-missing-in-far')


def hist_rejections(rnd, quick):
    """Refused operations of every kind between the rounds: the answers have to stay those of the unchanged book."""
    h = Hist('history/refused', rnd, quick)
    a, b, cc = 'root/a', 'root/b', 'root/c'
    for s in BASE_SPECS:
        h.add_class(a, s, 'create')
    h.add_ns(b)
    h.add_ns(cc, via='mof', class_via='mof')
    h.add_class(a, Spec('N_Sub', 'N_Base'), 'mof')
    h.add_class(a, Spec('N_Free', 'N_Sub'), 'add')
    h.add_class(a, Spec('A_LooseSub', 'A_Loose', assoc=True), 'create')
    h.set_matrix(['A_Bin', 'A_Loose', 'A_Mixed', 'A_LooseSub'], ['N_Base', 'N_Other', 'N_Sub'], ALL_ROLES[:6],
                 focus=('A_Loose', 'A_Bin', 'A_LooseSub', 'N_Base', 'N_Sub'), targets=('N_Base', 'N_Sub', 'A_Loose'))
    if not quick:       # some 200 rounds: a lighter matrix, 9 node sources (those touched first) + 2 association sources
        h.matrix[1] = tuple(x + y[1:3 * len(x)] for x, y in zip(h.matrix[0], h.matrix[1]))
        h.max_sources = 9
    ax, ay, as_, ao = (h.add_node(a, 'N_Base', 'x'), h.add_node(a, 'N_Base', 'y', 'mof'), h.add_node(a, 'N_Sub', 's'),
                       h.add_node(a, 'N_Other', 'o'))
    bx, by = h.add_node(b, 'N_Base', 'x'), h.add_node(b, 'N_Base', 'y', 'add')
    cx = h.add_node(cc, 'N_Base', 'x')
    h.add_assoc(a, 'A_Bin', [('Ante', ax), ('Dep', ay)])
    h.add_assoc(a, 'A_Mixed', [('Left', ay), ('Right', ao)])
    h.add_assoc(a, 'A_Loose', [('Src', ax), ('Dst', as_)], aid='L1')
    h.add_assoc(a, 'A_LooseSub', [('Src', as_), ('Dst', ay)], aid='LS')
    h.add_assoc(b, 'A_Loose', [('Src', bx), ('Dst', by)], aid='L2')
    h.add_assoc(cc, 'A_Loose', [('Src', cx), ('Dst', cx)], aid='L3')
    h.add_assoc(a, 'A_Loose', [('Src', ay), ('Dst', by)], aid='X1')
    h.add_assoc(b, 'A_Bin', [('Ante', bx), ('Dep', ay)])
    h.round('initial')
    seen = set()
    for sweep in range(1 if quick else 2):
        todo = rejections(h, class_ns=a, limit=1 if quick else None)
        rest = [k for k, _ in todo if not k.startswith(ALWAYS)]
        light = set(rnd.sample(rest, len(rest) * 4 // 5)) if quick else set(rnd.sample(rest, len(rest) // 2)) if sweep else set()
        for kind, thunk in todo:
            thunk()
            seen.add(kind)
            if kind in light:       # only the stores are compared (quick: 4/5 of the ordinary kinds; 2nd sweep: half)
                h.check_stores()
            else:
                h.round('after refused ' + kind)
        batches = [(w, p, k) for w in ('add', 'mof') for k in BATCH_BAD[w] for p in range(3)]
        for w, p, k in (rnd.sample(batches, 4) if quick else batches):
            if failed_batch(h, w, p, k):
                h.round('after failed batch %s/%s at %d' % (w, k, p))
        if not quick:       # second sweep on another state (what the batches left is removed, other instances hold the keys)
            for n in [n for n in h.m[a].nodes.values() if n[2].startswith('bn')]:
                h.delete_node(n)
            h.round('batch leftovers deleted')
            h.delete_assoc('L1')
            h.add_assoc(a, 'A_LooseSub', [('Src', ay), ('Dst', ax)], aid='L1')
            h.modify_assoc('X1', 'Dst', bx)
            h.round('state changed')
    missing = sorted(set(EXPECTED_KINDS) - seen)
    if missing:
        viol('history-refusal-kinds-not-exercised', kinds=missing)


def histories(quick):
    def rnd(tag):       # every history has its own generator: each can be replayed alone
        return random.Random('%d/%s' % (R.seed, tag))
    probe_mof_redefinition_namespace()
    probe_mof_class_cache()
    probe_delete_through_end_namespace()
    for way in WAYS:
        run_history(hist_subclass_ways, way, rnd(way), quick)
    run_history(hist_namespaces, rnd('namespaces'), quick)
    run_history(hist_instances, rnd('instances'), quick)
    run_history(hist_modify_class, rnd('modify-class'), quick)
    run_history(hist_rejections, rnd('refused'), quick)
    for i in range(2 if quick else 8):
        run_history(hist_random, i, rnd('random/%d' % i), quick, 7 if quick else 25)


def main():
    rnd = random.Random(R.seed)
    quick = R.tier == 'quick'
    core_full = {('A_Bin', ('N_Base', 'N_Sub'), 'same', 'single'), ('A_Bin', ('N_Base', 'N_Sub'), 'cross', 'both'),
                 ('A_BinSub', ('N_Sub', 'N_SubSub'), 'same', 'self'), ('A_Loose', ('N_Base', 'N_Base'), 'cross', 'fan'),
                 ('A_LooseSub', ('N_Base', 'N_Sub'), 'third', 'single'),
                 ('A_BinImp', ('N_Base', 'N_Sub'), 'same', 'both')}
    for spec in pair_specs(full=not quick):
        w = pair_world(*spec)
        if not quick and spec in core_full:
            explore(w, 'full', rnd, nsample=0, variants=4, light_sources=('root/b:N_Sub.Id=z', 'root/a:N_Sub.Id=z',
                                                                          'root/a:N_Base.Id=z', 'root/b:N_Base.Id=z'))
        elif quick or pair_star(spec) <= 2:
            explore(w, 'pairs', rnd, nsample=6 if quick else 10, variants=1)
        else:
            explore(w, 'singles', rnd, nsample=40, variants=1)
    for w in special_worlds():
        explore(w, 'pairs' if not quick else 'singles', rnd, nsample=60 if quick else 150, variants=2)
    for w in null_worlds() + dangling_worlds() + imp_cross_worlds():
        explore(w, 'singles' if quick else 'pairs', rnd, nsample=10 if quick else 40, variants=1)
    mutation_sequences(rnd, quick)
    for i in range(2 if quick else 5):
        n = rnd.randint(6, 12)
        w = random_world('random/%d' % i, rnd, n, rnd.randint(n // 2, 2 * n), NSS[:rnd.randint(1, 3)])
        explore(w, 'sparse' if quick else 'singles', rnd, nsample=6 if quick else 60, variants=1,
                node_sources_only=quick, light_refs=True)
    w = random_world('random/30-nodes', rnd, 30, 45, NSS)
    explore(w, 'sparse', rnd, nsample=2 if quick else 15, variants=0 if quick else 1, node_sources_only=True)
    class_level(rnd, quick)
    histories(quick)
    for vid in sorted(PENDING, key=lambda v: (v.startswith('known:'), v)):
        R.violation(vid, **PENDING[vid])
    R.finish()


main()
