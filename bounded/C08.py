"""Bounded stand-in for C08: tomof() -> MOFCompiler.compile_string() round trip through the real PLY lexer/parser.

Oracles (independent of the code under test):
  * a structural comparator that walks original and compiled object attribute by attribute (names, types, array
    shape, values with their CIM python types, qualifier values, flavors, scopes) - it never calls pywbem's __eq__
    on CIM objects;
  * a DSP0004 reference tokenizer/decoder for MOF string literals (ref_tokens/ref_decode) and a reference scanner
    of the generated text (scan_literals) that finds string parts the way a MOF lexer does; they give the expected
    value of hand written literals and tell whether tomof() folded a line inside an escape sequence.
"""
import itertools
import math
import random
import re
import warnings

from bounded.common import Run
from pywbem import (CIMClass, CIMInstance, CIMInstanceName, CIMProperty, CIMMethod, CIMParameter, CIMQualifier,
                    CIMQualifierDeclaration, CIMDateTime, Uint8, Sint8, Uint16, Sint16, Uint32, Sint32, Uint64,
                    Sint64, Real32, Real64)
from pywbem._mof_compiler import MOFCompiler, MOFWBEMConnection, MOFParseError

warnings.simplefilter('ignore')

R = Run('tomof(maxline)->compile_string round trip: 13 value types + reference + embedded instance x scalar/array/'
        'sized array/NULL x carriers (qualifier declaration, class property default, qualifier value on class/'
        'property/method/parameter, instance property); all 8 single scopes + sampled subsets (thorough: all 255) x '
        '27 flavor combinations; strings a^k+special+b^m with k swept over the first and second fold position for 16 '
        'special contents x 10 carriers x maxline in {40,41,80,120} (thorough: 11 values 40..120), blank separated '
        'words (seeded), total lengths 0..200; hand written literals: all sequences <= 2 (thorough <= 3) over 24 '
        'DSP0004 escape tokens split into 1..2 adjacent literals; instances against classes with non-NULL property '
        'defaults: 13 value types + reference + embedded instance + embedded object x scalar/array/sized array x class '
        'default in {NULL, truthy, falsy, empty array} x instance value in {NULL, falsy, empty array, = default, != '
        'default, array with NULL items, longer array}, with an unmentioned defaulted class property; instances '
        'mentioning subsets (each single property x mode, all, seeded random subsets; thorough: all-but-one) of a '
        'subclass whose own and inherited properties all declare defaults')

NS = 'ns'
CONN = MOFWBEMConnection()
MC = MOFCompiler(CONN, log_func=None)

INT_TYPES = {'uint8': Uint8, 'sint8': Sint8, 'uint16': Uint16, 'sint16': Sint16, 'uint32': Uint32,
             'sint32': Sint32, 'uint64': Uint64, 'sint64': Sint64}
REAL_TYPES = {'real32': Real32, 'real64': Real64}
SCOPES = ['CLASS', 'ASSOCIATION', 'INDICATION', 'PROPERTY', 'REFERENCE', 'METHOD', 'PARAMETER', 'ANY']


# --------------------------------------------------------------------------------------------------------------
# DSP0004 reference for string literals
# --------------------------------------------------------------------------------------------------------------
class RefErr(Exception):
    def __init__(self, kind, pos):
        Exception.__init__(self, kind)
        self.kind = kind
        self.pos = pos


HEX = set('0123456789abcdefABCDEF')
SIMPLE = {'b': '\b', 't': '\t', 'n': '\n', 'f': '\f', 'r': '\r', '"': '"', "'": "'", '\\': '\\'}


def ref_tokens(body):
    """DSP0004 tokenization of the text between the quotes -> [(start, end, denoted character)]."""
    i = 0
    out = []
    n = len(body)
    while i < n:
        c = body[i]
        if c != '\\':
            out.append((i, i + 1, c))
            i += 1
            continue
        if i + 1 >= n:
            raise RefErr('dangling-backslash', i)
        e = body[i + 1]
        if e in SIMPLE:
            out.append((i, i + 2, SIMPLE[e]))
            i += 2
        elif e in 'xX':
            j = i + 2
            while j < n and j < i + 6 and body[j] in HEX:
                j += 1
            if j == i + 2:
                raise RefErr('hex-escape-without-digits', i)
            out.append((i, j, chr(int(body[i + 2:j], 16))))
            i = j
        else:
            raise RefErr('unknown-escape', i)
    return out


def ref_decode(body):
    return ''.join(t[2] for t in ref_tokens(body))


def scan_literals(text):
    """Groups of adjacent string literals (only white space in between) as a MOF lexer reads the text."""
    i = 0
    n = len(text)
    groups = []
    cur = None
    while i < n:
        c = text[i]
        if c == '"':
            j = i + 1
            while True:
                if j >= n:
                    raise RefErr('unterminated-literal', i)
                d = text[j]
                if d == '\\':
                    j += 2
                    continue
                if d in '\n\r':
                    raise RefErr('newline-in-literal', j)
                if d == '"':
                    break
                j += 1
            if cur is None:
                cur = []
                groups.append(cur)
            cur.append(text[i + 1:j])
            i = j + 1
        elif c == "'":
            j = i + 1
            while j < n and text[j] != "'":
                j += 2 if text[j] == '\\' else 1
            i = j + 1
            cur = None
        elif c in ' \n\t\r':
            i += 1
        else:
            cur = None
            i += 1
    return groups


def fold_inside_escape(text, depth=0):
    """True if the generated text has a string part boundary inside an escape sequence (judged by the reference);
    the MOF text of embedded instances (a string value that is itself tomof() output) is looked into as well."""
    try:
        groups = scan_literals(text)
    except RefErr as e:
        if e.kind == 'newline-in-literal':
            # a raw line end inside a literal: the part before it ended with backslash + closing quote
            k = e.pos - 1
            if k >= 1 and text[k] == '"':
                nb = 0
                k -= 1
                while k >= 0 and text[k] == '\\':
                    nb += 1
                    k -= 1
                return nb % 2 == 1
        return False
    for g in groups:
        if len(g) < 2:
            continue
        for body in g[:-1]:
            try:
                ref_tokens(body)
            except RefErr as e:
                if e.kind in ('hex-escape-without-digits', 'dangling-backslash') and e.pos >= len(body) - 2:
                    return True
                return False
        try:
            toks = ref_tokens(''.join(g))
        except RefErr:
            return False
        inner = set()
        for s, e, _ in toks:
            inner.update(range(s + 1, e))
        pos = 0
        for body in g[:-1]:
            pos += len(body)
            if pos in inner:
                return True
    if depth < 2:
        for g in groups:
            try:
                val = ''.join(ref_decode(b) for b in g)
            except RefErr:
                continue
            if val.startswith('instance of ') and fold_inside_escape(val, depth + 1):
                return True
    return False


def decode_dropping_apostrophe(body):
    """Model of the one decoder defect 'backslash-apostrophe yields nothing'; everything else per DSP0004."""
    return ''.join('' if body[s:e] == "\\'" else c for s, e, c in ref_tokens(body))


def apostrophe_model(text):
    """What the embedded instance MOF inside `text` turns into under that model: ('reject', None) if the inner
    MOF is left with an invalid literal, else ('values', set of inner string values)."""
    vals = set()
    try:
        for g in scan_literals(text):
            inner = ''.join(decode_dropping_apostrophe(b) for b in g)
            if inner.startswith('instance of '):
                for g2 in scan_literals(inner):
                    vals.add(''.join(decode_dropping_apostrophe(b) for b in g2))
    except RefErr:
        return 'reject', None
    return 'values', vals


# --------------------------------------------------------------------------------------------------------------
# running the real compiler
# --------------------------------------------------------------------------------------------------------------
def reset():
    CONN.classes.clear()
    CONN.instances.clear()
    CONN.qualifiers.clear()
    CONN.class_names.clear()
    del CONN.compile_ordered_classnames[:]
    MC.parser.qualcache.clear()
    MC.parser.classnames.clear()
    MC.parser.aliases.clear()
    MC.parser.embedded_objects = None
    MC.parser.target_namespace = None


def compile_all(texts):
    reset()
    for t in texts:
        MC.compile_string(t, NS)


# --------------------------------------------------------------------------------------------------------------
# structural comparator
# --------------------------------------------------------------------------------------------------------------
class Norm:
    """Switchable normalisations, each one models exactly one defect already present in the unchanged tree."""
    def __init__(self, apos=False, char16=False):
        self.apos = apos
        self.char16 = char16

    def orig_str(self, s, typ):
        if self.apos and typ != 'char16':
            return s.replace("'", '')
        return s

    def got_str(self, s, typ):
        if self.char16 and typ == 'char16' and isinstance(s, str) and len(s) >= 3 and s[0] == "'" and s[-1] == "'":
            try:
                s = ref_decode(s[1:-1])
            except RefErr:
                return s
        return s


def flav(x):
    return None if x is None else bool(x)


def d_scalar(o, g, typ, path, out, nm):
    if o is None or g is None:
        if not (o is None and g is None):
            out.append((path, 'null-mismatch', o, g))
        return
    if isinstance(o, CIMInstance):
        if not isinstance(g, CIMInstance):
            out.append((path, 'embedded-instance-not-rebuilt', o, g))
        else:
            d_instance(o, g, path + '/emb', out, nm)
        return
    if typ in ('string', 'char16'):
        if not isinstance(g, str) or isinstance(g, (CIMDateTime,)):
            out.append((path, typ + '-pytype', o, g))
        elif nm.got_str(g, typ) != nm.orig_str(o, typ):
            out.append((path, typ + '-differs', o, g))
    elif typ == 'boolean':
        if g is not o:
            out.append((path, 'boolean-differs', o, g))
    elif typ in INT_TYPES:
        if type(g) is not INT_TYPES[typ]:
            out.append((path, 'integer-pytype', o, g))
        elif int(g) != int(o):
            out.append((path, 'integer-differs', o, g))
    elif typ in REAL_TYPES:
        if type(g) is not REAL_TYPES[typ]:
            out.append((path, 'real-pytype', o, g))
        else:
            fo, fg = float(o), float(g)
            same = (math.isnan(fo) and math.isnan(fg)) or (fo == fg and math.copysign(1, fo) == math.copysign(1, fg))
            if not same:
                out.append((path, 'real-differs', o, g))
    elif typ == 'datetime':
        if not isinstance(g, CIMDateTime):
            out.append((path, 'datetime-pytype', o, g))
        elif (o.is_interval, o.datetime, o.timedelta, o.minutes_from_utc, o.precision) != \
                (g.is_interval, g.datetime, g.timedelta, g.minutes_from_utc, g.precision):
            out.append((path, 'datetime-differs', o, g))
    elif typ == 'reference':
        if not isinstance(g, CIMInstanceName):
            out.append((path, 'reference-pytype', o, g))
            return
        if o.classname.lower() != g.classname.lower() or (o.namespace or None) != (g.namespace or None) or \
                (o.host or '').lower() != (g.host or '').lower():
            out.append((path, 'reference-differs', o, g))
            return
        ok = dict((k.lower(), v) for k, v in o.keybindings.items())
        gk = dict((k.lower(), v) for k, v in g.keybindings.items())
        if sorted(ok) != sorted(gk):
            out.append((path, 'reference-keys-differ', o, g))
            return
        for k, ov in ok.items():
            gv = gk[k]
            if isinstance(ov, bool) or isinstance(gv, bool):
                same = ov is gv
            elif isinstance(ov, str):
                same = isinstance(gv, str) and nm.got_str(gv, 'string') == nm.orig_str(ov, 'string')
            else:
                same = not isinstance(gv, str) and ov == gv
            if not same:
                out.append((path, 'reference-key-differs', o, g))
                return
    else:
        raise AssertionError(typ)


def d_value(o, g, typ, path, out, nm):
    if isinstance(o, list) or isinstance(g, list):
        if not (isinstance(o, list) and isinstance(g, list)):
            out.append((path, 'array-shape-differs', o, g))
        elif len(o) != len(g):
            out.append((path, 'array-length-differs', o, g))
        else:
            for i, (a, b) in enumerate(zip(o, g)):
                d_scalar(a, b, typ, path, out, nm)
    else:
        d_scalar(o, g, typ, path, out, nm)


def d_attr(o, g, attr, path, out, ci=False):
    a, b = getattr(o, attr), getattr(g, attr)
    if ci and isinstance(a, str) and isinstance(b, str):
        a, b = a.lower(), b.lower()
    if a != b or type(a) is not type(b):
        out.append((path, attr + '-differs', getattr(o, attr), getattr(g, attr)))


def d_named(od, gd, path, what, out, fn, nm):
    on, gn = list(od.keys()), list(gd.keys())
    if sorted(on) != sorted(gn):
        out.append((path, what + '-names-differ', on, gn))
        return
    for k in on:
        fn(od[k], gd[k], path + '/' + what + ':' + k, out, nm)


def d_qualifier(o, g, path, out, nm):
    d_attr(o, g, 'name', path, out)
    d_attr(o, g, 'type', path, out)
    d_value(o.value, g.value, o.type, path + '/value', out, nm)
    for f in ('overridable', 'tosubclass'):
        if flav(getattr(o, f)) is not flav(getattr(g, f)):
            out.append((path, 'flavor-' + f + '-differs', getattr(o, f), getattr(g, f)))
    for f in ('translatable', 'toinstance'):  # no MOF keyword for the negative: None and False are the same thing
        if bool(getattr(o, f)) is not bool(getattr(g, f)):
            out.append((path, 'flavor-' + f + '-differs', getattr(o, f), getattr(g, f)))


def d_property(o, g, path, out, nm):
    for a in ('name', 'type', 'reference_class', 'is_array', 'array_size'):
        d_attr(o, g, a, path, out)
    d_value(o.value, g.value, o.type, path + '/value', out, nm)
    d_named(o.qualifiers, g.qualifiers, path, 'qualifier', out, d_qualifier, nm)


def d_parameter(o, g, path, out, nm):
    for a in ('name', 'type', 'reference_class', 'is_array', 'array_size'):
        d_attr(o, g, a, path, out)
    d_named(o.qualifiers, g.qualifiers, path, 'qualifier', out, d_qualifier, nm)


def d_method(o, g, path, out, nm):
    d_attr(o, g, 'name', path, out)
    d_attr(o, g, 'return_type', path, out)
    d_named(o.qualifiers, g.qualifiers, path, 'qualifier', out, d_qualifier, nm)
    d_named(o.parameters, g.parameters, path, 'parameter', out, d_parameter, nm)


def d_class(o, g, path, out, nm):
    d_attr(o, g, 'classname', path, out)
    d_attr(o, g, 'superclass', path, out)
    d_named(o.qualifiers, g.qualifiers, path, 'qualifier', out, d_qualifier, nm)
    d_named(o.properties, g.properties, path, 'property', out, d_property, nm)
    d_named(o.methods, g.methods, path, 'method', out, d_method, nm)


def d_instance(o, g, path, out, nm):
    d_attr(o, g, 'classname', path, out)

    def prop(po, pg, p, out_, nm_):
        for a in ('name', 'type', 'is_array'):
            d_attr(po, pg, a, p, out_)
        d_value(po.value, pg.value, po.type, p + '/value', out_, nm_)
    d_named(o.properties, g.properties, path, 'property', out, prop, nm)


def d_qualdecl(o, g, path, out, nm):
    for a in ('name', 'type', 'is_array', 'array_size'):
        d_attr(o, g, a, path, out)
    d_value(o.value, g.value, o.type, path + '/default', out, nm)
    for s in SCOPES:
        if bool(o.scopes.get(s, False)) is not bool(g.scopes.get(s, False)):
            out.append((path, 'scope-differs', dict(o.scopes), dict(g.scopes)))
            break
    for f in ('overridable', 'tosubclass'):
        if flav(getattr(o, f)) is not flav(getattr(g, f)):
            out.append((path, 'flavor-' + f + '-differs', getattr(o, f), getattr(g, f)))
    if bool(o.translatable) is not bool(g.translatable):
        out.append((path, 'flavor-translatable-differs', o.translatable, g.translatable))
    if g.toinstance:
        out.append((path, 'flavor-toinstance-invented', o.toinstance, g.toinstance))


DIFF = {'class': d_class, 'instance': d_instance, 'qualdecl': d_qualdecl}


def strip_path(p):
    """'class/property:P1/qualifier:Q' -> 'class-property-qualifier' (stable, independent of generated names)."""
    return '-'.join(seg.split(':')[0] for seg in p.split('/') if seg)


# --------------------------------------------------------------------------------------------------------------
# violation bookkeeping: unknown ids are handed to R first (R keeps only the first few ids)
# --------------------------------------------------------------------------------------------------------------
FOUND = {}
KNOWN_ORDER = ['known:escaped-apostrophe-dropped', 'known:fold-splits-escape-sequence',
               'known:char16-literal-keeps-quotes-and-escapes', 'known:real-without-fraction-digits-rejected',
               'known:short-hex-escape-at-end-of-literal-IndexError', 'known:qualifier-null-value-replaced-by-default',
               'known:non-ascii-identifier-rejected', 'known:qualifier-value-flavors-not-emitted',
               'known:embedded-property-null-or-empty-array-keeps-class-default',
               'known:embedded-array-null-element-lost']


def report(vid, **detail):
    if vid not in FOUND:
        FOUND[vid] = detail


def flush():
    unknown = sorted(v for v in FOUND if not v.startswith('known:'))
    known = [v for v in KNOWN_ORDER if v in FOUND] + sorted(v for v in FOUND
                                                            if v.startswith('known:') and v not in KNOWN_ORDER)
    for v in unknown + known:
        R.violation(v, **FOUND[v])
    import os
    import sys
    sys.stderr.write('C08 ids found: %s\n' % ', '.join(unknown + known))
    if os.environ.get('C08_DEBUG'):
        for k in sorted(STATS, key=repr):
            sys.stderr.write('stat %s: %d cases, %d with a folded string\n' % (k, STATS[k][0], STATS[k][1]))
        for v in unknown + known:
            sys.stderr.write('--- %s\n' % v)
            for k, x in FOUND[v].items():
                sys.stderr.write('    %s: %s\n' % (k, x if k == 'mof' else short(x, 600)))


def short(x, n=400):
    s = repr(x)
    return s if len(s) <= n else s[:n] + '...(%d chars)' % len(s)


STATS = {} if __import__('os').environ.get('C08_DEBUG') else None
FOLDED_RE = re.compile(r'"\n *"')
NOFRAC_RE = re.compile(r'[+-]?[0-9]+[eE][+-]?[0-9]+')


def real_without_fraction_at(exc, text):
    """The parse error points at a real number printed without fraction digits ('1e+20')."""
    try:
        line = text.split('\n')[exc.lineno - 1]
        col = exc.column
    except Exception:
        return False
    for c in (col - 1, col, col - 2):
        if 0 <= c < len(line):
            m = NOFRAC_RE.match(line, c)
            if m and (c == 0 or line[c - 1] in ' {,(='):
                return True
    return False


def non_ascii_ident_at(exc, text):
    try:
        line = text.split('\n')[exc.lineno - 1]
    except Exception:
        return False
    msg = str(exc)
    if 'Illegal character' not in msg:
        return False
    # outside of any literal on that line there is a non-ASCII letter
    outside = re.sub(r'"(\\.|[^"\\])*"|\'(\\.|[^\'\\])*\'', '', line)
    return any(ord(ch) > 127 for ch in outside)


WHAT_EMB_DEFAULT = ('p_instanceDeclaration sets the value of an EmbeddedInstance/EmbeddedObject property only if the '
                    'parsed value is truthy, otherwise the copy of the class property keeps its default: with a class C1 '
                    'whose property [EmbeddedInstance("C_T")] string E has the MOF text of an instance of C_T as default '
                    'value, "instance of C1 { E = NULL; };" compiles to an instance whose E is that default string '
                    'instead of NULL; with [EmbeddedInstance("C_T")] string EA[] without default, "instance of C1 { EA = '
                    '{ }; };" compiles to EA = NULL instead of an empty array')
WHAT_EMB_NULL_ITEM = ('p_instanceDeclaration hands the NULL elements of an embedded instance array to the PLY parser as if '
                      'they were MOF text: CIMInstance.tomof() writes EA = { "instance of C_T {...};", NULL }; for the '
                      'value [inst, None] and the compiled array is [inst] (one element instead of two); EA = { NULL }; '
                      'ends in RuntimeError("No input string given with input()") instead of the array [None]')
IPROP_PATH_RE = re.compile(r'instance/property:([^/]+)/value$')


def embedded_kept_class_default(d, obj):
    """The diff `d` is: the instance gave NULL or an empty array to an embedded instance/object property and the
    compiled property holds exactly what the class property declares as its default (NULL if it declares none)."""
    m = IPROP_PATH_RE.match(d[0])
    if not m or d[1] not in ('null-mismatch', 'array-length-differs', 'array-shape-differs'):
        return False
    try:
        op = obj.properties[m.group(1)]
        cp = CONN.classes[NS][obj.classname].properties[m.group(1)]
    except KeyError:
        return False
    if 'EmbeddedInstance' not in cp.qualifiers and 'EmbeddedObject' not in cp.qualifiers:
        return False
    if not (op.value is None or (isinstance(op.value, list) and not op.value)):
        return False
    try:
        return type(d[3]) is type(cp.value) and d[3] == cp.value
    except TypeError:  # pywbem's __eq__ on CIM objects refuses other types
        return False


def embedded_null_items_dropped(d, obj):
    """The diff `d` is: an embedded instance array with NULL elements arrived without them, otherwise intact."""
    m = IPROP_PATH_RE.match(d[0])
    if not m or d[1] != 'array-length-differs':
        return False
    try:
        op = obj.properties[m.group(1)]
    except KeyError:
        return False
    if not (op.embedded_object and isinstance(op.value, list) and any(x is None for x in op.value) and
            isinstance(d[3], list)):
        return False
    out = []
    d_value([x for x in op.value if x is not None], d[3], 'string', 'x', out, Norm())
    return not out


def roundtrip(kind, obj, deps, maxline, fetch, feats=(), **desc):
    """deps: MOF texts compiled before (themselves tomof() output of helper objects, default maxline)."""
    desc = dict(desc, kind=kind, maxline=maxline, object=short(obj, 1500))
    try:
        text = obj.tomof(maxline) if maxline is not None else obj.tomof()
    except Exception as e:
        report('tomof-raises-' + type(e).__name__, error=short(str(e)), **desc)
        return
    if not isinstance(text, str):
        report('tomof-returns-non-string', **desc)
        return
    desc['mof'] = text if len(text) < 1500 else text[:1500] + '...'
    if STATS is not None:
        k = (desc.get('section'), desc.get('carrier'))
        st = STATS.setdefault(k, [0, 0])
        st[0] += 1
        st[1] += 1 if FOLDED_RE.search(text) else 0
    try:
        compile_all(list(deps))
    except Exception as e:
        report('dependency-mof-rejected-' + type(e).__name__, error=short(str(e), 300), dependencies=short(deps, 1500),
               **desc)
        return
    try:
        MC.compile_string(text, NS)
    except Exception as e:
        et = type(e).__name__
        if isinstance(e, (MOFParseError, IndexError)) and fold_inside_escape(text):
            report('known:fold-splits-escape-sequence', error=et + ': ' + short(str(e), 200), **desc)
        elif isinstance(e, MOFParseError) and real_without_fraction_at(e, text):
            report('known:real-without-fraction-digits-rejected', error=short(str(e), 200), **desc)
        elif isinstance(e, MOFParseError) and 'nonascii-ident' in feats and non_ascii_ident_at(e, text):
            report('known:non-ascii-identifier-rejected', error=short(str(e), 200), **desc)
        elif isinstance(e, MOFParseError) and 'embedded-apos' in feats and apostrophe_model(text)[0] == 'reject':
            # the outer literal loses the apostrophe of \\\' and leaves an unknown escape in the embedded MOF
            report('known:escaped-apostrophe-dropped', error=short(str(e), 200), where='embedded instance', **desc)
        elif isinstance(e, RuntimeError) and 'embedded-array-null-first' in feats and 'No input string' in str(e):
            # the NULL element is handed to the PLY parser as MOF text of an embedded instance
            report('known:embedded-array-null-element-lost', what=WHAT_EMB_NULL_ITEM,
                   error=et + ': ' + short(str(e), 200), **desc)
        else:
            report('compile-rejects-tomof-output-' + et, error=short(str(e), 300), **desc)
        return
    try:
        got = fetch()
    except Exception as e:
        report('compiled-object-missing', error=type(e).__name__ + ': ' + short(str(e), 200), **desc)
        return
    diffs = []
    DIFF[kind](obj, got, kind, diffs, Norm())
    if not diffs:
        return
    rest = []
    DIFF[kind](obj, got, kind, rest, Norm(apos=True, char16=True))
    # explained by a split inside an escape sequence?
    if rest and fold_inside_escape(text) and all(d[1] in ('string-differs', 'reference-key-differs')
                                                 for d in rest):
        report('known:fold-splits-escape-sequence', diff=short(rest[0]), **desc)
        rest = []
    if rest and 'embedded-apos' in feats:
        how, vals = apostrophe_model(text)
        rest2 = [d for d in rest if not (how == 'values' and d[1] == 'string-differs' and '/emb' in d[0] and
                                         d[3] in vals)]
        if len(rest2) < len(rest):
            report('known:escaped-apostrophe-dropped', where='embedded instance', diff=short(rest[0]), **desc)
            rest = rest2
    if rest and 'null-qualifier' in feats:
        rest2 = [d for d in rest if not (d[1] == 'null-mismatch' and d[2] is None and d[0].endswith('/value') and
                                         '/qualifier:' in d[0])]
        if len(rest2) < len(rest):
            report('known:qualifier-null-value-replaced-by-default', diff=short(rest[0]), **desc)
            rest = rest2
    if rest and 'embedded-falsy' in feats:
        rest2 = [d for d in rest if not embedded_kept_class_default(d, obj)]
        if len(rest2) < len(rest):
            gone = [d for d in rest if d not in rest2][0]
            report('known:embedded-property-null-or-empty-array-keeps-class-default', what=WHAT_EMB_DEFAULT,
                   property=gone[0], original=short(gone[2]), compiled=short(gone[3]), **desc)
            rest = rest2
    if rest and 'embedded-array-null' in feats:
        rest2 = [d for d in rest if not embedded_null_items_dropped(d, obj)]
        if len(rest2) < len(rest):
            gone = [d for d in rest if d not in rest2][0]
            report('known:embedded-array-null-element-lost', what=WHAT_EMB_NULL_ITEM, property=gone[0],
                   original=short(gone[2]), compiled=short(gone[3]), **desc)
            rest = rest2
    if rest and 'qualifier-flavors' in feats:
        rest2 = [d for d in rest if not (d[1].startswith('flavor-') and '/qualifier:' in d[0])]
        if len(rest2) < len(rest):
            report('known:qualifier-value-flavors-not-emitted', diff=short(rest[0]), **desc)
            rest = rest2
    for d in rest:
        report('roundtrip-' + strip_path(d[0]) + '-' + d[1], original=short(d[2]), compiled=short(d[3]), **desc)
    if len(rest) < len(diffs):
        for name, nm in (('known:escaped-apostrophe-dropped', Norm(apos=True)),
                         ('known:char16-literal-keeps-quotes-and-escapes', Norm(char16=True))):
            part = []
            DIFF[kind](obj, got, kind, part, nm)
            if len(part) < len(diffs):
                gone = [d for d in diffs if d not in part]
                report(name, original=short(gone[0][2]), compiled=short(gone[0][3]), **desc)


def fetch_class(name):
    return lambda: CONN.classes[NS][name]


def fetch_qual(name):
    return lambda: CONN.qualifiers[NS][name]


def fetch_inst(i=-1):
    return lambda: CONN.instances[NS][i]


# --------------------------------------------------------------------------------------------------------------
# generators
# --------------------------------------------------------------------------------------------------------------
def int_samples(t):
    cls = INT_TYPES[t]
    lo, hi = cls.minvalue, cls.maxvalue
    vals = [lo, hi, hi - 1, lo + 1, 0, 1, 7, 8, 9, 10, 100, 101]
    if lo < 0:
        vals += [-1, -8, -10]
    return [cls(v) for v in dict.fromkeys(vals) if lo <= v <= hi]


REAL_SAMPLES = [0.0, -0.0, 1.5, -2.25, 0.1, 123456789.125, 3.4028235e38, 1.7976931348623157e308,
                2.2250738585072014e-308, 1.5e-10, 12345678.9, 100.0, 1e15, -1.0000000000000002,
                1e20, 1e-7, 5e-324, 1e16, -1e+100]
DT_SAMPLES = ['20140924193040.654321+120', '00000183132542.234567:000', '19991231235959.000000-720',
              '99999999235959.999999:000', '20000101000000.000000+000']
CHAR_SAMPLES = ['a', 'Z', '0', ' ', '"', "'", '\\', '\n', '\t', '\x01', '\x1f', '\xe9', '\uffff', 'x']
STR_SAMPLES = ['', 'abc', 'a b', ' ', 'say "hi"', "it's", 'back\\slash', 'x\\', '\\', '"', "'", 'tab\there',
               'nl\nnl', 'cr\rlf\n', '\b\f', '\x01\x1f', '\x7f\x80', '\xe9\u4e2d\U0001F600', '/* c */ // d',
               'NULL', 'true', '{ 1, 2 }', ';,()[]', '\\n', '\\x0041', '\\"', "\\'", '$alias', 'a' * 70]


def samples(t):
    if t in INT_TYPES:
        return int_samples(t)
    if t in REAL_TYPES:
        return [REAL_TYPES[t](v) for v in REAL_SAMPLES]
    if t == 'boolean':
        return [True, False]
    if t == 'datetime':
        return [CIMDateTime(s) for s in DT_SAMPLES]
    if t == 'char16':
        return list(CHAR_SAMPLES)
    if t == 'string':
        return list(STR_SAMPLES)
    raise AssertionError(t)


VALUE_TYPES = ['boolean', 'string', 'char16', 'datetime'] + list(INT_TYPES) + list(REAL_TYPES)


def qdecl(name, typ, value=None, is_array=False, array_size=None, scopes=None, **fl):
    return CIMQualifierDeclaration(name, typ, value=value, is_array=is_array, array_size=array_size,
                                   scopes=scopes or {'ANY': True}, **fl)


def qval(decl, value):
    """A qualifier value whose flavors are those the declaration gives it (all MOF shows is name and value)."""
    return CIMQualifier(decl.name, value, type=decl.type, overridable=decl.overridable, tosubclass=decl.tosubclass,
                        translatable=decl.translatable)


def shapes(t, quick):
    """(is_array, array_size, value, tag) for one type."""
    vs = samples(t)
    out = [(False, None, None, 'scalar-null')]
    for i, v in enumerate(vs):
        out.append((False, None, v, 'scalar-%d' % i))
    out.append((True, None, None, 'array-null'))
    out.append((True, 5, None, 'sized-null'))
    out.append((True, None, [], 'array-empty'))
    out.append((True, None, [vs[0]], 'array-1'))
    out.append((True, 3, vs[:3], 'sized-3'))
    out.append((True, None, [vs[0], None, vs[-1]], 'array-with-null'))
    out.append((True, None, [None], 'array-only-null'))
    out.append((True, None, list(vs), 'array-all'))
    out.append((True, 100, (list(vs) * 8)[:30], 'sized-long'))
    return out


def has_apos(v):
    if isinstance(v, list):
        return any(has_apos(x) for x in v)
    return isinstance(v, str) and "'" in v


CARRIERS = ['qdecl', 'cprop', 'cqual', 'iprop']


def build_carrier(carrier, typ, is_array, array_size, value, names=('Q1', 'C1', 'P1')):
    """-> (kind, object, deps, fetch)"""
    qn, cn, pn = names
    if carrier == 'qdecl':
        return 'qualdecl', qdecl(qn, typ, value, is_array, array_size), [], fetch_qual(qn)
    if carrier == 'cprop':
        c = CIMClass(cn, properties=[CIMProperty(pn, value, type=typ, is_array=is_array, array_size=array_size)])
        return 'class', c, [], fetch_class(cn)
    if carrier in ('cqual', 'pqual', 'mqual', 'aqual'):
        d = qdecl(qn, typ, None, is_array, array_size)
        q = qval(d, value)
        if carrier == 'cqual':
            c = CIMClass(cn, qualifiers=[q])
        elif carrier == 'pqual':
            c = CIMClass(cn, properties=[CIMProperty(pn, None, type='uint8', qualifiers=[q])])
        elif carrier == 'mqual':
            c = CIMClass(cn, methods=[CIMMethod(pn, return_type='uint8', qualifiers=[q])])
        else:
            c = CIMClass(cn, methods=[CIMMethod(pn, return_type='uint8', parameters=[
                CIMParameter('A1', 'string', qualifiers=[q])])])
        return 'class', c, [d.tomof()], fetch_class(cn)
    if carrier == 'iprop':
        c = CIMClass(cn, properties=[CIMProperty(pn, None, type=typ, is_array=is_array, array_size=array_size)])
        i = CIMInstance(cn, properties=[CIMProperty(pn, value, type=typ, is_array=is_array,
                                                    array_size=array_size)])
        return 'instance', i, [c.tomof()], fetch_inst()
    raise AssertionError(carrier)


def value_matrix(maxlines, quick):
    for typ in VALUE_TYPES:
        for is_array, array_size, value, tag in shapes(typ, quick):
            for carrier in CARRIERS:
                if carrier == 'cqual' and value is None and is_array:
                    continue  # a qualifier value object has no array flag of its own: NULL array is not expressible
                feats = []
                if carrier == 'cqual' and value is None:
                    feats.append('null-qualifier')
                for ml in maxlines:
                    R.case(('value', typ, tag, carrier, ml))
                    kind, obj, deps, fetch = build_carrier(carrier, typ, is_array, array_size, value)
                    roundtrip(kind, obj, deps, ml, fetch, feats, section='value-matrix', type=typ, shape=tag,
                              carrier=carrier, value=short(value))


def null_qualifier_cases():
    # explicit NULL on a qualifier whose declaration has a non-NULL default
    for typ, dflt in (('boolean', False), ('boolean', True), ('string', 'dflt'), ('uint8', Uint8(4))):
        R.case(('null-qualifier', typ, dflt))
        d = qdecl('Q1', typ, dflt)
        c = CIMClass('C1', qualifiers=[qval(d, None)])
        roundtrip('class', c, [d.tomof()], None, fetch_class('C1'), ['null-qualifier'], section='null-qualifier',
                  declaration_default=repr(dflt))


def scope_flavor_cases(quick, rnd):
    subsets = [[s] for s in SCOPES] + [list(SCOPES), ['CLASS', 'ANY'], ['PROPERTY', 'REFERENCE', 'METHOD'],
                                       ['ASSOCIATION', 'INDICATION']]
    allsub = [[s for i, s in enumerate(SCOPES) if m >> i & 1] for m in range(1, 256)]
    if quick:
        subsets += rnd.sample(allsub, 20)
    else:
        subsets = allsub
    flavors = list(itertools.product((None, True, False), repeat=3))
    for sc in subsets:
        # scope values False for the others given explicitly or left out: both are the same scope set
        for explicit in (False, True):
            scopes = dict((s, True) for s in sc)
            if explicit:
                for s in SCOPES:
                    scopes.setdefault(s, False)
            fls = flavors if (len(sc) == 1 or not quick) and not explicit else [rnd.choice(flavors)]
            for ov, ts, tr in fls:
                R.case(('scope-flavor', tuple(sc), explicit, ov, ts, tr))
                d = qdecl('Q1', 'string', 'v', scopes=scopes, overridable=ov, tosubclass=ts, translatable=tr)
                roundtrip('qualdecl', d, [], None, fetch_qual('Q1'), section='scope-flavor', scopes=sc,
                          flavors=dict(overridable=ov, tosubclass=ts, translatable=tr))
    # flavors of a declaration arrive on the qualifier values that use it (class, property, method, parameter)
    for ov, ts, tr in flavors:
        R.case(('flavor-inherit', ov, ts, tr))
        d = qdecl('Q1', 'uint16', Uint16(1), overridable=ov, tosubclass=ts, translatable=tr)
        q = qval(d, Uint16(2))
        c = CIMClass('C1', qualifiers=[q], properties=[CIMProperty('P1', None, type='string', qualifiers=[q])],
                     methods=[CIMMethod('M1', return_type='string', qualifiers=[q], parameters=[
                         CIMParameter('A1', 'sint8', qualifiers=[q])])])
        roundtrip('class', c, [d.tomof()], None, fetch_class('C1'), section='flavor-inherit',
                  flavors=dict(overridable=ov, tosubclass=ts, translatable=tr))
    # flavors on a qualifier value that differ from its declaration: MOF has syntax for it ('Q (v) : Restricted')
    for decl_fl, val_fl in ((dict(overridable=True, tosubclass=True), dict(overridable=True, tosubclass=False)),
                            (dict(), dict(overridable=False)),
                            (dict(overridable=True), dict(overridable=True, translatable=True))):
        R.case(('flavor-on-value', tuple(sorted(decl_fl.items())), tuple(sorted(val_fl.items()))))
        d = qdecl('Q1', 'string', None, **decl_fl)
        c = CIMClass('C1', qualifiers=[CIMQualifier('Q1', 'v', type='string', **val_fl)])
        roundtrip('class', c, [d.tomof()], None, fetch_class('C1'), ['qualifier-flavors'],
                  section='flavor-on-value', declaration_flavors=decl_fl, value_flavors=val_fl)


# ---- strings around the fold positions --------------------------------------------------------------------------
SPECIALS = ['"', "'", '\\', '\n', '\t', '\x01', '\x1f', '\xe9', ' ', '\\"', '\x01' + '1', '\x01' + 'f', '\x0b\x0c',
            '\\\\', '""', '\U0001F600']
STR_CARRIERS = ['qdecl', 'qdecl-item', 'cprop', 'cprop-item', 'cqual', 'pqual-item', 'mqual', 'aqual', 'iprop',
                'iprop-item', 'embedded', 'refkey']

TGT = CIMClass('C_T', properties=[CIMProperty('K', None, type='string'), CIMProperty('N', None, type='uint8')])
TGT_MOF = TGT.tomof()
EMB_DECL = qdecl('EmbeddedInstance', 'string', None, scopes={'PROPERTY': True, 'METHOD': True, 'PARAMETER': True})
EMO_DECL = qdecl('EmbeddedObject', 'boolean', False, scopes={'PROPERTY': True, 'METHOD': True, 'PARAMETER': True},
                 overridable=False)
EMB_MOF = EMB_DECL.tomof() + EMO_DECL.tomof()


def build_str_carrier(carrier, s):
    if carrier.endswith('-item'):
        base = carrier[:-5]
        return build_carrier(base, 'string', True, None, ['x', s, 'y'])
    if carrier == 'embedded':
        c = CIMClass('C1', properties=[CIMProperty('P1', None, type='string',
                                                   qualifiers=[qval(EMB_DECL, 'C_T')])])
        i = CIMInstance('C1', properties=[CIMProperty('P1', CIMInstance('C_T', properties=[
            CIMProperty('K', s, type='string'), CIMProperty('N', Uint8(5), type='uint8')]), type='string',
            embedded_object='instance')])
        return 'instance', i, [EMB_MOF, TGT_MOF, c.tomof()], fetch_inst()
    if carrier == 'refkey':
        c = CIMClass('C1', properties=[CIMProperty('P1', None, type='reference', reference_class='C_T')])
        i = CIMInstance('C1', properties=[CIMProperty('P1', CIMInstanceName('C_T', keybindings=[('K', s)]),
                                                      type='reference', reference_class='C_T')])
        return 'instance', i, [TGT_MOF, c.tomof()], fetch_inst()
    return build_carrier(carrier, 'string', False, None, s)


def str_case(section, carrier, s, ml, key):
    R.case(key)
    feats = []
    if carrier == 'embedded' and "'" in s:
        feats.append('embedded-apos')
    kind, obj, deps, fetch = build_str_carrier(carrier, s)
    roundtrip(kind, obj, deps, ml, fetch, feats, section=section, carrier=carrier, string=s, string_len=len(s))


def fold_sweep(maxlines, quick, rnd):
    for ml in maxlines:
        for carrier in STR_CARRIERS:
            if carrier == 'refkey':
                specials = ['"', '\\', ' ', '\xe9', "'", 'a']  # WBEM URI escaping of other characters is not C08
            elif quick and carrier in ('cprop-item', 'pqual-item', 'iprop-item', 'mqual'):
                specials = SPECIALS[:7]
            else:
                specials = SPECIALS
            for sp in specials:
                # first fold somewhere in ml-45..ml, second fold one line further; the sweep covers every alignment
                ks = set(range(0, 4))
                ks.update(range(max(0, ml - 48), ml + 2))
                if not quick or carrier in ('qdecl', 'cprop', 'cqual', 'iprop'):
                    ks.update(range(2 * ml - 60, 2 * ml - 4))
                if quick:
                    # keep the alignments near the line end (where folds happen) dense, thin out the rest
                    ks = set(k for k in ks if k < 4 or (ml - 16 <= k <= ml) or (2 * ml - 26 <= k <= 2 * ml - 6)
                             or k % 5 == 0)
                for k in sorted(ks):
                    for m in ((0, 9) if quick else (0, 1, 9)):
                        if k + len(sp) + m > 200:
                            continue
                        s = 'a' * k + sp + 'b' * m
                        str_case('fold-sweep', carrier, s, ml, ('fold', carrier, ml, sp, k, m))


WORDS = ['a', 'bb', 'ccc', 'dddddddd', 'e' * 17, 'f' * 39, 'g' * 80, 'say "x"', "it's", 'c:\\dir\\', '\x01', '\n',
         '\t', '\xe9\xe8', '', '"', '\\']


def word_strings(maxlines, quick, rnd):
    n = 600 if quick else 6000
    carriers = ['qdecl', 'cprop', 'cqual', 'iprop', 'qdecl-item', 'pqual-item', 'aqual', 'embedded']
    for i in range(n):
        total = rnd.choice((30, 60, 80, 100, 140, 200))
        parts = []
        while sum(len(p) + 1 for p in parts) < total:
            parts.append(rnd.choice(WORDS))
        s = ' '.join(parts)[:200]
        ml = rnd.choice(maxlines)
        carrier = carriers[i % len(carriers)]
        str_case('word-strings', carrier, s, ml, ('words', carrier, ml, s))
    # every total length 0..200 for plain words of fixed width (exact-fit and off-by-one of the last line)
    for ml in maxlines[:2] if quick else maxlines:
        for carrier in ('qdecl', 'cqual', 'iprop'):
            for width in (1, 9):
                for total in range(0, 201, 1 if not quick or ml == maxlines[0] else 7):
                    s = ((('w' * width) + ' ') * 201)[:total]
                    str_case('length-sweep', carrier, s, ml, ('len', carrier, ml, width, total))


# ---- class and instance structure -------------------------------------------------------------------------------
NAMES = ['X', 'x1', '_lead', 'Mixed_Case9', 'class', 'Scope', 'any', 'of', 'string', 'uint8', 'Qualifier',
         'instance', 'flavor', 'tosubclass', 'schema', 'pragma', 'as', 'property', 'method', 'parameter',
         'reference', 'translatable', 'restricted', 'enableoverride', 'disableoverride', 'toinstance', 'datetime',
         'N' * 64, 'a_b_c_d_e_f_g_h_i_j_k_l_m_n_o_p_q_r_s_t_u_v_w_x_y_z_0123456789' * 2]
NONASCII_NAMES = ['\xdcn\xef', '\u540d\u524d', 'p\xe9']


def structure_cases(maxlines, quick):
    key = qdecl('Key', 'boolean', False, scopes={'PROPERTY': True, 'REFERENCE': True}, overridable=False,
                tosubclass=True)
    desc = qdecl('Description', 'string', None, overridable=True, tosubclass=True, translatable=True)
    assoc = qdecl('Association', 'boolean', False, scopes={'ASSOCIATION': True}, overridable=False)
    vals = qdecl('Values', 'string', None, is_array=True, scopes={'PROPERTY': True, 'METHOD': True,
                                                                  'PARAMETER': True})
    inq = qdecl('In', 'boolean', True, scopes={'PARAMETER': True}, overridable=False)
    maxl = qdecl('MaxLen', 'uint32', None, scopes={'PROPERTY': True, 'METHOD': True, 'PARAMETER': True})
    qmof = ''.join(d.tomof() for d in (key, desc, assoc, vals, inq, maxl)) + EMB_MOF
    sup = CIMClass('C_Sup', properties=[CIMProperty('Id', None, type='string', qualifiers=[qval(key, True)])])
    deps = [qmof, TGT_MOF, sup.tomof()]
    alltypes = VALUE_TYPES + ['reference']

    def prop(n, t, arr=False, size=None, value=None, quals=()):
        return CIMProperty(n, value, type=t, is_array=arr, array_size=size,
                           reference_class='C_T' if t == 'reference' else None, qualifiers=list(quals))

    def param(n, t, arr=False, size=None, quals=()):
        return CIMParameter(n, t, is_array=arr, array_size=size,
                            reference_class='C_T' if t == 'reference' else None, qualifiers=list(quals))

    classes = []
    for t in alltypes:
        qs = [qval(desc, 'about ' + t), qval(maxl, Uint32(7))]
        props = [prop('S', t), prop('Sq', t, quals=qs)]
        if t != 'reference':
            props += [prop('A', t, True), prop('Az', t, True, 4), prop('Aq', t, True, 1, quals=[qval(vals, ['a', 'b'])])]
        methods = []
        if t != 'reference':
            methods.append(CIMMethod('M0', return_type=t))
            methods.append(CIMMethod('Mq', return_type=t, qualifiers=qs, parameters=[
                param('p1', t), param('p2', t, True), param('p3', t, True, 2, quals=[qval(inq, False)] + qs)]))
        else:
            methods.append(CIMMethod('Mr', return_type='uint32', parameters=[
                param('r1', t), param('r2', t, True), param('r3', t, True, 9, quals=[qval(inq, True)])]))
        classes.append(('type-' + t, CIMClass('C1', properties=props, methods=methods)))
        classes.append(('type-' + t + '-sub', CIMClass('C1', superclass='C_Sup', qualifiers=qs, properties=props[:2],
                                                       methods=methods[:1])))
    classes.append(('empty', CIMClass('C1')))
    classes.append(('empty-sub', CIMClass('C1', superclass='C_Sup')))
    classes.append(('assoc', CIMClass('C1', qualifiers=[qval(assoc, True), qval(desc, 'd')], properties=[
        prop('L', 'reference', quals=[qval(key, True)]), prop('Rr', 'reference', quals=[qval(key, True)])])))
    classes.append(('ref-default', CIMClass('C1', properties=[
        prop('L', 'reference', value=CIMInstanceName('C_T', keybindings=[('K', 'k1'), ('N', 5)])),
        prop('F', 'reference', value=CIMInstanceName('C_T', keybindings=[('K', 'k 2')], namespace='root/x',
                                                     host='h.example:5988'))])))
    classes.append(('many-qualifiers', CIMClass('C1', qualifiers=[qval(desc, 'd ' * 60)], properties=[
        prop('P', 'string', value='dv', quals=[qval(key, False), qval(desc, 'x' * 90), qval(maxl, Uint32(0)),
                                               qval(vals, ['v%d' % i for i in range(25)]),
                                               qval(EMB_DECL, 'C_T')])])))
    classes.append(('many-members', CIMClass('C1', properties=[prop('p%d' % i, alltypes[i % 13], i % 2 == 1)
                                                               for i in range(20)],
                                             methods=[CIMMethod('m%d' % i, return_type=alltypes[i % 13], parameters=[
                                                 param('a%d' % j, alltypes[(i + j) % 14], j % 2 == 0)
                                                 for j in range(i)]) for i in range(6)])))
    for tag, c in classes:
        for ml in maxlines:
            R.case(('structure', tag, ml))
            roundtrip('class', c, deps, ml, fetch_class('C1'), section='class-structure', shape=tag)

    # names: class, superclass, property, method, parameter, qualifier names
    for n in NAMES + NONASCII_NAMES:
        feats = ['nonascii-ident'] if n in NONASCII_NAMES else []
        for where in ('class', 'superclass', 'property', 'method', 'parameter', 'qualifier', 'instance-property',
                      'refclass'):
            R.case(('name', where, n))
            d2 = list(deps)
            fetch = fetch_class('C1')
            kind = 'class'
            if where == 'class':
                obj = CIMClass(n, properties=[prop('P', 'uint8')])
                fetch = fetch_class(n)
            elif where == 'superclass':
                d2.append(CIMClass(n).tomof())
                obj = CIMClass('C1', superclass=n)
            elif where == 'property':
                obj = CIMClass('C1', properties=[prop(n, 'sint16', value=Sint16(-3))])
            elif where == 'method':
                obj = CIMClass('C1', methods=[CIMMethod(n, return_type='boolean')])
            elif where == 'parameter':
                obj = CIMClass('C1', methods=[CIMMethod('M', return_type='boolean', parameters=[param(n, 'real64')])])
            elif where == 'qualifier':
                qd = qdecl(n, 'sint32', Sint32(1))
                d2.append(qd.tomof())
                obj = CIMClass('C1', qualifiers=[qval(qd, Sint32(-1))])
            elif where == 'refclass':
                d2.append(CIMClass(n).tomof())
                obj = CIMClass('C1', properties=[CIMProperty('R', None, type='reference', reference_class=n)],
                               methods=[CIMMethod('M', return_type='uint8', parameters=[
                                   CIMParameter('A', 'reference', reference_class=n)])])
            else:
                d2.append(CIMClass('C1', properties=[prop(n, 'uint64')]).tomof())
                obj = CIMInstance('C1', properties=[CIMProperty(n, Uint64(1), type='uint64')])
                kind = 'instance'
                fetch = fetch_inst()
            if feats and where in ('superclass', 'qualifier', 'instance-property', 'refclass'):
                continue  # the helper text itself would not compile; covered by the other positions
            roundtrip(kind, obj, d2, None, fetch, feats, section='names', where=where, name=n)
    for n in NAMES + NONASCII_NAMES:
        R.case(('name', 'qualdecl', n))
        roundtrip('qualdecl', qdecl(n, 'boolean', True), [], None, fetch_qual(n),
                  ['nonascii-ident'] if n in NONASCII_NAMES else [], section='names', where='qualifier declaration',
                  name=n)

    # instances: several properties at once, references, embedded instances (scalar and array), NULLs
    cls = CIMClass('C1', superclass='C_Sup', properties=[
        prop('U8', 'uint8'), prop('S', 'string'), prop('SA', 'string', True), prop('B', 'boolean'),
        prop('BA', 'boolean', True, 3), prop('D', 'datetime'), prop('R32', 'real32'), prop('C', 'char16'),
        prop('RefP', 'reference'), prop('E', 'string', quals=[qval(EMB_DECL, 'C_T')]),
        prop('EA', 'string', True, quals=[qval(EMB_DECL, 'C_T')]), prop('O', 'string', quals=[qval(EMO_DECL, True)]),
        prop('I64', 'sint64', True)])
    ideps = deps + [cls.tomof()]

    def ip(n, t, v, arr=False, **kw):
        return CIMProperty(n, v, type=t, is_array=arr, reference_class='C_T' if t == 'reference' else None, **kw)

    def emb(k, n):
        return CIMInstance('C_T', properties=[CIMProperty('K', k, type='string'),
                                              CIMProperty('N', n, type='uint8')])
    insts = [
        ('one-of-each', [ip('U8', 'uint8', Uint8(255)), ip('S', 'string', 'text'), ip('SA', 'string', ['a', 'b'], True),
                         ip('B', 'boolean', True), ip('BA', 'boolean', [True, False, None], True, array_size=3),
                         ip('D', 'datetime', CIMDateTime(DT_SAMPLES[0])), ip('R32', 'real32', Real32(0.5)),
                         ip('RefP', 'reference', CIMInstanceName('C_T', keybindings=[('K', 'v')])),
                         ip('I64', 'sint64', [Sint64(-2 ** 63), Sint64(2 ** 63 - 1)], True)]),
        ('all-null', [ip('U8', 'uint8', None), ip('S', 'string', None), ip('SA', 'string', None, True),
                      ip('B', 'boolean', None), ip('D', 'datetime', None), ip('R32', 'real32', None),
                      ip('C', 'char16', None), ip('RefP', 'reference', None), ip('E', 'string', None),
                      ip('I64', 'sint64', None, True)]),
        ('inherited-property', [ip('Id', 'string', 'key value'), ip('U8', 'uint8', Uint8(0))]),
        ('falsy-values', [ip('U8', 'uint8', Uint8(0)), ip('S', 'string', ''), ip('SA', 'string', [], True),
                          ip('B', 'boolean', False), ip('R32', 'real32', Real32(0.0)),
                          ip('I64', 'sint64', [Sint64(0)], True)]),
        ('embedded-instance', [ip('E', 'string', emb('in "quotes" \\ and\nnewline', Uint8(1)),
                                  embedded_object='instance')]),
        ('embedded-instance-array', [ip('EA', 'string', [emb('one', Uint8(1)), emb('two ' * 30, None)], True,
                                        embedded_object='instance')]),
        ('embedded-object', [ip('O', 'string', emb('obj', Uint8(2)), embedded_object='object')]),
        ('embedded-null-props', [ip('E', 'string', emb(None, None), embedded_object='instance')]),
        ('reference-full', [ip('RefP', 'reference', CIMInstanceName(
            'C_T', keybindings=[('K', 'a b'), ('N', 200)], namespace='root/cimv2', host='10.1.2.3:5989'))]),
        ('reference-bool-key', [ip('RefP', 'reference', CIMInstanceName('C_T', keybindings=[('K', True)]))]),
    ]
    for tag, props in insts:
        for ml in maxlines:
            R.case(('instance', tag, ml))
            roundtrip('instance', CIMInstance('C1', properties=props), ideps, ml, fetch_inst(),
                      section='instance-structure', shape=tag)


# ---- instances against classes whose properties declare non-NULL defaults -----------------------------------------
# The compiler builds each instance property from a copy of the class property, so the class's default value, its
# array-ness/array size, its embedded object qualifiers and the class properties the instance does not mention could
# all leak into the compiled instance.  Model of the documented behaviour: MOFCompiler + MOFWBEMConnection store the
# instance exactly as written - the properties the MOF mentions, with the values it gives (NULL is a value); class
# defaults are not filled in for properties the instance does not mention (nothing in the compiler documentation
# promises that, CreateInstance of MOFWBEMConnection appends the instance as it is).
DTYPES = VALUE_TYPES + ['reference', 'embinst', 'embobj']
KEY_DECL = qdecl('Key', 'boolean', False, scopes={'PROPERTY': True, 'REFERENCE': True}, overridable=False,
                 tosubclass=True)


def emb_t(k, n):
    return CIMInstance('C_T', properties=[CIMProperty('K', k, type='string'), CIMProperty('N', n, type='uint8')])


def dv_samples(t):
    """(falsy value or None if the type has none, value a, value b) - a is truthy, b differs from a (and is truthy
    too, except for boolean)."""
    if t in INT_TYPES:
        cls = INT_TYPES[t]
        return cls(0), cls(cls.maxvalue), cls(cls.minvalue if cls.minvalue < 0 else 1)
    if t in REAL_TYPES:
        return REAL_TYPES[t](0.0), REAL_TYPES[t](1.5), REAL_TYPES[t](-2.25)
    if t == 'boolean':
        return False, True, False
    if t == 'string':
        return '', 'dflt', 'other "value"'
    if t == 'char16':
        return None, 'a', 'Z'
    if t == 'datetime':
        return CIMDateTime('00000000000000.000000:000'), CIMDateTime(DT_SAMPLES[0]), CIMDateTime(DT_SAMPLES[1])
    if t == 'reference':
        return None, CIMInstanceName('C_T', keybindings=[('K', 'k1')]), \
            CIMInstanceName('C_T', keybindings=[('K', 'k 2'), ('N', 5)], namespace='root/x', host='h.example:5988')
    if t in ('embinst', 'embobj'):
        return None, emb_t('dk', Uint8(3)), emb_t('other', None)
    raise AssertionError(t)


def dprop(name, t, value, arr=False, size=None, in_class=False, quals=()):
    quals = list(quals)
    if t in ('embinst', 'embobj'):
        if in_class:
            quals.append(qval(EMB_DECL, 'C_T') if t == 'embinst' else qval(EMO_DECL, True))
        return CIMProperty(name, value, type='string', is_array=arr, array_size=size,
                           embedded_object='instance' if t == 'embinst' else 'object', qualifiers=quals)
    return CIMProperty(name, value, type=t, is_array=arr, array_size=size,
                       reference_class='C_T' if t == 'reference' else None, qualifiers=quals)


def uniq(vals):
    seen, out = set(), []
    for tag, v in vals:
        r = repr(v)
        if r not in seen:
            seen.add(r)
            out.append((tag, v))
    return out


def default_choices(t, shape):
    z, a, b2 = dv_samples(t)
    if shape == 'scalar':
        c = [('null', None), ('a', a)] + ([('falsy', z)] if z is not None else [])
    elif shape == 'array':
        c = [('null', None), ('ab', [a, b2]), ('empty', [])] + ([('falsy', [z])] if z is not None else [])
    else:
        c = [('null', None), ('aba', [a, b2, a])]
    return uniq(c)


def value_choices(t, shape):
    z, a, b2 = dv_samples(t)
    if shape == 'scalar':
        c = [('null', None), ('falsy', z), ('a', a), ('b', b2)]
    elif shape == 'array':
        c = [('null', None), ('empty', []), ('falsy', None if z is None else [z]), ('ab', [a, b2]), ('b', [b2]),
             ('a-null-b', [a, None, b2]), ('only-null', [None]), ('null-a', [None, a]), ('ababa', [a, b2, a, b2, a])]
    else:
        c = [('null', None), ('aba', [a, b2, a]), ('falsy', None if z is None else [z, z, z]),
             ('b-null-a', [b2, None, a])]
    return uniq(c)


def emb_feats(props):
    """What is known to go wrong for this instance (decided from the input alone)."""
    feats = set()
    for p in props:
        if not p.embedded_object:
            continue
        if p.value is None or (isinstance(p.value, list) and not p.value):
            feats.add('embedded-falsy')
        if isinstance(p.value, list) and any(x is None for x in p.value):
            feats.add('embedded-array-null')
            if p.value[0] is None:
                feats.add('embedded-array-null-first')
    return sorted(feats)


def instance_default_matrix(maxlines, quick):
    """One property at a time: type x shape x class default x instance value; the class has a second property of the
    same kind with a non-NULL default that the instance does not mention."""
    base = [EMB_MOF, TGT_MOF]
    for t in DTYPES:
        for shape in ('scalar', 'array', 'sized'):
            if t == 'reference' and shape != 'scalar':
                continue  # CIM has no arrays of references in properties
            arr = shape != 'scalar'
            size = 3 if shape == 'sized' else None
            a = dv_samples(t)[1]
            for dtag, dflt in default_choices(t, shape):
                cls = CIMClass('C1', properties=[dprop('P1', t, dflt, arr, size, in_class=True),
                                                 dprop('Unm', t, [a] if arr else a, arr, None, in_class=True)])
                deps = base + [cls.tomof()]
                for vtag, val in value_choices(t, shape):
                    props = [dprop('P1', t, val, arr)]
                    for ml in maxlines:
                        R.case(('inst-default', t, shape, dtag, vtag, ml))
                        roundtrip('instance', CIMInstance('C1', properties=props), deps, ml, fetch_inst(),
                                  emb_feats(props), section='instance-vs-class-default', type=t, shape=shape,
                                  class_default=dtag + ': ' + short(dflt, 200), instance_value=vtag)


SCALAR_MODES = ['null', 'falsy', 'same', 'diff']
ARRAY_MODES = ['null', 'empty', 'falsy', 'same', 'diff', 'with-null']


def mode_value(t, arr, mode, dflt):
    """Instance value for one property of the all-defaults class; None if the type has no such value."""
    z, a, b = dv_samples(t)
    if mode == 'null':
        return True, None
    if mode == 'same':
        return True, (list(dflt) if arr else dflt)
    if not arr:
        if mode == 'falsy':
            return z is not None, z
        cand = [v for v in (b, a) if not (type(v) is type(dflt) and v == dflt)]
        return True, cand[0]
    if mode == 'empty':
        return True, []
    if mode == 'falsy':
        return z is not None, [z]
    if mode == 'diff':
        return True, ([a] if len(dflt) != 1 else [a, a])
    if mode == 'with-null':
        return True, [a, None, b]
    raise AssertionError(mode)


def instance_subset_cases(maxlines, quick, rnd):
    """A class (with a superclass) whose properties all declare non-NULL defaults - every type, scalar and array,
    truthy and falsy defaults, an overridden inherited default, a key; instances mention subsets of them."""
    sup = CIMClass('C_SupD', properties=[
        CIMProperty('Id', 'id0', type='string', qualifiers=[qval(KEY_DECL, True)]),
        CIMProperty('InhU', Uint16(9), type='uint16'), CIMProperty('Ovr', 'sup-default', type='string'),
        CIMProperty('InhA', [Sint8(-1), Sint8(0)], type='sint8', is_array=True),
        CIMProperty('InhZ', Uint32(0), type='uint32')])
    specs = [('Id', 'string', False, 'id0'), ('InhU', 'uint16', False, Uint16(9)), ('Ovr', 'string', False, 'sub-default'),
             ('InhA', 'sint8', True, [Sint8(-1), Sint8(0)]), ('InhZ', 'uint32', False, Uint32(0))]
    own = [CIMProperty('Ovr', 'sub-default', type='string')]
    for t in DTYPES:
        z, a, b = dv_samples(t)
        new = [(t + '_s', t, False, a)]
        if z is not None:
            new.append((t + '_z', t, False, z))
        if t != 'reference':
            new.append((t + '_a', t, True, [a, b]))
            new.append((t + '_e', t, True, []))
            if z is not None:
                new.append((t + '_za', t, True, [z]))
        for n, t_, arr, dflt in new:
            own.append(dprop(n, t_, dflt, arr, None, in_class=True))
        specs += new
    cls = CIMClass('C1', superclass='C_SupD', properties=own)
    deps = [KEY_DECL.tomof() + EMB_MOF, TGT_MOF, sup.tomof(), cls.tomof()]

    def build(sel):
        props = []
        for (n, t, arr, dflt), mode in sel:
            ok, v = mode_value(t, arr, mode, dflt)
            if not ok or (n == 'Id' and v is None):  # a key is never NULL
                continue
            props.append(dprop(n, t, v, arr))
        return props

    def run(tag, props, ml):
        if not props:
            return
        R.case(('inst-subset', tag, ml))
        roundtrip('instance', CIMInstance('C1', properties=props), deps, ml, fetch_inst(), emb_feats(props),
                  section='instance-subset-of-class-with-defaults', shape=str(tag),
                  mentioned=[p.name for p in props], class_properties=len(specs))

    ml0 = maxlines[0]
    for sp in specs:
        for mode in (ARRAY_MODES if sp[2] else SCALAR_MODES):
            for ml in (maxlines if not quick else [ml0]):
                run(('single', sp[0], mode), build([(sp, mode)]), ml)
    for mode in ARRAY_MODES:
        for ml in maxlines:
            run(('all', mode), build([(sp, mode if sp[2] or mode in SCALAR_MODES else 'same') for sp in specs]), ml)
    if not quick:
        for i in range(len(specs)):
            for mode in ('null', 'same', 'falsy'):
                sel = [(sp, mode if sp[2] or mode in SCALAR_MODES else 'same') for j, sp in enumerate(specs) if j != i]
                run(('all-but', specs[i][0], mode), build(sel), ml0)
    for i in range(80 if quick else 3000):
        k = rnd.choice((1, 2, 3, 5, 8, 13, 21, len(specs)))
        sel = [(sp, rnd.choice(ARRAY_MODES if sp[2] else SCALAR_MODES)) for sp in rnd.sample(specs, min(k, len(specs)))]
        run(('random', i, tuple((sp[0], m) for sp, m in sel)), build(sel), rnd.choice(maxlines))


# ---- hand written literals against the DSP0004 reference -----------------------------------------------------
LIT_TOKENS =['a', '0', 'F', 'g', ' ', "'", '\\\\', '\\"', "\\'", '\\n', '\\t', '\\b', '\\f', '\\r', '\\x1', '\\x41',
              '\\X041', '\\x0041', '\\xABCD', '\\xffff', '\\x9', '\\X7e', '\\x00e9', '\xe9']


def literal_case(parts, where):
    R.case(('literal', where, tuple(parts)))
    try:
        expected = ''.join(ref_decode(p) for p in parts)
    except RefErr:
        return
    lits = ' '.join('"%s"' % p for p in parts)
    if where == 'qdecl':
        deps, text = [], 'Qualifier Q1 : string = %s, Scope(any);\n' % lits
        fetch = lambda: CONN.qualifiers[NS]['Q1'].value
    elif where == 'cprop':
        deps, text = [], 'class C1 {\n  string P1 = %s;\n};\n' % lits
        fetch = lambda: CONN.classes[NS]['C1'].properties['P1'].value
    elif where == 'cqual':
        deps, text = ['Qualifier Q1 : string, Scope(any);\n'], '[Q1 ( %s )]\nclass C1 {\n};\n' % lits
        fetch = lambda: CONN.classes[NS]['C1'].qualifiers['Q1'].value
    else:
        deps, text = ['class C1 {\n  string P1[];\n};\n'], 'instance of C1 {\n  P1 = { "x", %s };\n};\n' % lits
        fetch = lambda: CONN.instances[NS][-1].properties['P1'].value[1]
    desc = dict(section='source-literals', where=where, mof=text, expected=expected)
    try:
        compile_all(deps + [text])
        got = fetch()
    except Exception as e:
        if isinstance(e, IndexError) and any(re.search(r'\\[xX][0-9a-fA-F]{1,3}$', p) for p in parts):
            report('known:short-hex-escape-at-end-of-literal-IndexError', error=repr(e), **desc)
        else:
            report('literal-rejected-' + type(e).__name__, error=short(str(e), 200), **desc)
        return
    if got == expected and isinstance(got, str):
        return
    dropped = ''.join(''.join(t[2] for t in ref_tokens(p) if not (t[1] - t[0] == 2 and p[t[0]:t[1]] == "\\'"))
                      for p in parts)
    if got == dropped:
        report('known:escaped-apostrophe-dropped', compiled=got, **desc)
    else:
        report('literal-decoded-differently', compiled=short(got), **desc)


def literal_cases(quick, rnd):
    seqs = [[t] for t in LIT_TOKENS] + [list(p) for p in itertools.product(LIT_TOKENS, repeat=2)]
    tri = [list(p) for p in itertools.product(LIT_TOKENS, repeat=3)]
    seqs += rnd.sample(tri, 1500) if quick else tri
    seqs.insert(0, [])
    for i, seq in enumerate(seqs):
        where = ('qdecl', 'cprop', 'cqual', 'iprop')[i % 4]
        literal_case([''.join(seq)], where)
        for cut in range(1, len(seq)):
            literal_case([''.join(seq[:cut]), ''.join(seq[cut:])], where)
        if len(seq) == 1:
            for w in ('qdecl', 'cprop', 'cqual', 'iprop'):
                literal_case([seq[0]], w)
                literal_case(['ab' + seq[0]], w)
                literal_case([seq[0], ''], w)
                literal_case(['', seq[0], seq[0]], w)


def main():
    quick = R.tier == 'quick'
    rnd = random.Random(R.seed)
    if quick:
        ml_fold = [40, 41, 80, 120]
        ml_val = [40, 80, 120]
        ml_struct = [40, 57, 80, 120]
        ml_inst = [None]
    else:
        ml_inst = [None, 40, 64, 120]
        ml_fold = [40, 41, 42, 43, 59, 60, 79, 80, 81, 119, 120]
        ml_val = [40, 41, 47, 64, 80, 99, 120, 1000]
        ml_struct = list(range(40, 121, 4)) + [200]
    value_matrix(ml_val, quick)
    null_qualifier_cases()
    scope_flavor_cases(quick, rnd)
    structure_cases(ml_struct, quick)
    instance_default_matrix(ml_inst, quick)
    instance_subset_cases(ml_inst, quick, rnd)
    literal_cases(quick, rnd)
    word_strings(ml_fold, quick, rnd)
    fold_sweep(ml_fold, quick, rnd)
    flush()
    R.finish()


main()
