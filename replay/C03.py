"""Replay of C03 counterexamples: request construction of _methodcall on a connection whose transport is unreachable."""
from replay.common import main


def methodcall(p):
    import pywbem
    inp = p['inputs']
    on = inp.get('objectname')
    if isinstance(on, dict) and '$ref' in on:
        cls = on.get('cls')
        on = pywbem.CIMInstanceName('C', {'k': 'v'}, namespace='root/x') if cls == 'CIMInstanceName' \
            else pywbem.CIMClassName('C', namespace='root/x')
    conn = pywbem.WBEMConnection('http://127.0.0.1:1', timeout=1)
    raw = inp.get('objectname')
    if isinstance(raw, dict) and raw.get('fields'):
        f = raw['fields']
        on.host = f.get('host') or (None if f.get('host') is None else 'h')
        on.namespace = f.get('namespace') or (None if f.get('namespace') is None else 'root/x')
        if on.host == '':
            on.host = 'h'
        if on.namespace == '':
            on.namespace = 'root/x'
    sent = {}
    import pywbem._cim_operations as ops
    real = ops.wbem_request

    def capture(conn_, body, headers):
        sent['body'] = body
        sent['headers'] = dict(headers)
        raise pywbem.ConnectionError('captured')
    ops.wbem_request = capture
    try:
        try:
            conn._methodcall(inp.get('methodname') or 'M', on)
        finally:
            ops.wbem_request = real
        return {'confirmed': False, 'observed': 'returned'}
    except pywbem.ConnectionError:
        body = sent.get('body', '')
        problems = []
        if '<METHODCALL' in body and '<LOCALINSTANCEPATH>' not in body and '<LOCALCLASSPATH>' not in body:
            problems.append('METHODCALL does not contain a LOCALINSTANCEPATH/LOCALCLASSPATH (DTD-invalid): ' + body[body.find('<METHODCALL'):][:160])
        if sent.get('headers', {}).get('CIMObject', '').startswith('/'):
            problems.append('CIMObject header is not a local path: ' + sent['headers']['CIMObject'])
        return {'confirmed': bool(problems), 'problems': problems, 'objectname': repr(on)}
    except (pywbem.Error, TypeError, ValueError) as e:
        ok_type = isinstance(on, (str, pywbem.CIMInstanceName, pywbem.CIMClassName))
        bad = isinstance(e, TypeError) and ok_type
        return {'confirmed': bad, 'observed': f'{type(e).__name__}: {e}'[:200]}
    except Exception as e:
        return {'confirmed': True, 'observed': f'{type(e).__name__}: {e}'[:200],
                'input': {'methodname': inp.get('methodname'), 'objectname': repr(on)}}


if __name__ == '__main__':
    main({'WBEMConnection._methodcall[request construction]': methodcall})
