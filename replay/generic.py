"""Generic replay of a solver counterexample against the real function (run under /venv/bin/python on the same tree).

Used when a property has no hand-written replayer for the function.  It only handles what it can rebuild faithfully:
module-level functions, static methods and methods whose `self` is a plain record, with arguments that are plain Python
values (str, int, bool, None, lists, tuples, dicts of those).  The failed specification is evaluated natively after the
call (old(...) sub-expressions are evaluated before it).  Anything it cannot rebuild or evaluate yields confirmed=None
(= no failing input found), never a confirmation."""
import ast
import copy
import importlib
import json
import re
import sys


class Cannot(Exception):
    pass


def plain(v):
    if isinstance(v, dict):
        if '$tuple' in v:
            return tuple(plain(x) for x in v['$tuple'])
        if '$map' in v:
            return {plain(k) if not isinstance(k, list) else tuple(k): plain(x) for k, x in v['$map']}
        if '$ref' in v or '$class' in v or '$float' in v:
            raise Cannot(f'argument is an object the generic replayer cannot rebuild: {str(v)[:80]}')
        return {k: plain(x) for k, x in v.items()}
    if isinstance(v, list):
        return [plain(x) for x in v]
    if isinstance(v, str) and v.startswith('<') and v.endswith('>'):
        raise Cannot(f'unrebuildable value {v}')
    return v


def load(key):
    rel, qual = key.split('[')[0].split('::')
    modname = rel[:-3].replace('/', '.')
    if modname.endswith('.__init__'):
        modname = modname[:-9]
    mod = importlib.import_module(modname)
    obj = mod
    owner = None
    for part in qual.split('.'):
        owner, obj = obj, getattr(obj, part)
    return mod, owner, obj


def helpers(mod):
    ns = dict(vars(mod))
    ns.update(dict(
        implies=lambda a, b: (not a) or b,
        intval=int, litval=lambda s: s, valid_utf8=lambda b: True,
        str2int=lambda s, base=10: int(s, base),
        inre=lambda s, pat: re.fullmatch(pat, s) is not None,
        fresh=lambda x: True,
    ))

    def forall(fn, lo=None, hi=None):
        if isinstance(lo, str) or lo is None:
            raise Cannot('quantifier over all values of a kind')
        return all(fn(i) for i in range(lo, hi))

    def exists(fn, lo=None, hi=None):
        if isinstance(lo, str) or lo is None:
            raise Cannot('quantifier over all values of a kind')
        return any(fn(i) for i in range(lo, hi))
    ns.update(forall=forall, exists=exists)
    return ns


class OldLift(ast.NodeTransformer):
    """old(E) -> __old[k], with E collected for evaluation in the pre-state."""
    def __init__(self):
        self.olds = []

    def visit_Call(self, node):
        if isinstance(node.func, ast.Name) and node.func.id == 'old' and len(node.args) == 1:
            self.olds.append(node.args[0])
            return ast.Subscript(value=ast.Name(id='__old', ctx=ast.Load()),
                                 slice=ast.Constant(value=len(self.olds) - 1), ctx=ast.Load())
        return self.generic_visit(node)


def replay(p):
    key = p['function']
    mod, owner, fn = load(key)
    inputs = p.get('inputs') or {}
    for cname, cval in (p.get('consts') or {}).items():
        if hasattr(mod, cname):
            setattr(mod, cname, plain(cval))
    import inspect
    raw = owner.__dict__.get(fn.__name__) if inspect.isclass(owner) else None
    params = list(inspect.signature(fn).parameters)
    args = {}
    for nm in params:
        if nm not in inputs:
            continue
        v = inputs[nm]
        if nm == 'self' and isinstance(v, dict) and '$class' in v:
            cls = getattr(mod, v['$class'], None)
            if cls is None:
                raise Cannot(f'class {v["$class"]} not found')
            obj = cls.__new__(cls)
            for k, x in v.items():
                if k != '$class' and not k.startswith('_g_'):
                    try:
                        setattr(obj, k, plain(x))
                    except AttributeError:
                        raise Cannot(f'cannot set {k} on {v["$class"]}')
            args[nm] = obj
        else:
            args[nm] = plain(v)
    if isinstance(raw, staticmethod):
        args.pop('self', None)
    spec = p.get('spec')
    kind = p.get('kind')
    ns = helpers(mod)
    tree = lifter = None
    if spec and kind in ('post', 'exc-post'):
        spec = spec.split('   [evaluating it raises')[0]
        lifter = OldLift()
        tree = ast.fix_missing_locations(lifter.visit(ast.parse(spec.strip(), mode='eval')))
        env0 = dict(ns, **copy.deepcopy(args))
        ns['__old'] = [eval(compile(ast.fix_missing_locations(ast.Expression(body=o)), '<old>', 'eval'), env0) for o in lifter.olds]
    call_args = dict(args)
    outcome = {}
    try:
        result = fn(**call_args)
        outcome = {'returned': repr(result)[:300]}
        exc = None
    except Exception as e:          # noqa
        exc = e
        outcome = {'raised': f'{type(e).__name__}: {e}'[:300]}
    shown = {k: repr(v)[:200] for k, v in args.items() if k != 'self'}
    if kind == 'raises':
        want = p['obligation'].split('::raises:')[-1].split('@')[0]
        conf = exc is not None and any(c.__name__ == want for c in type(exc).__mro__)
        return {'confirmed': bool(conf), 'input': shown, **outcome}
    if tree is None:
        return {'confirmed': None, 'error': 'no specification text to evaluate', 'input': shown, **outcome}
    if kind == 'post':
        if exc is not None:
            return {'confirmed': None, 'input': shown, **outcome, 'note': 'the call raised: the postcondition of a normal return does not apply'}
        env = dict(ns, **call_args, result=result)
    else:
        want = p['obligation'].split('::exc-')[-1].split(':')[0]
        if exc is None or not any(c.__name__ == want for c in type(exc).__mro__):
            return {'confirmed': None, 'input': shown, **outcome, 'note': f'no {want} raised on this input'}
        env = dict(ns, **call_args, exc=exc)
    val = eval(compile(tree, '<spec>', 'eval'), env)
    return {'confirmed': (not bool(val)), 'input': shown, **outcome, 'specification': spec.strip()[:400], 'specification_value': bool(val)}


def main():
    p = json.loads(sys.stdin.read())
    try:
        res = replay(p)
    except Cannot as e:
        res = {'confirmed': None, 'error': str(e)}
    except Exception:
        import traceback
        res = {'confirmed': None, 'error': traceback.format_exc()[-1200:]}
    print(json.dumps(res, default=repr))


if __name__ == '__main__':
    main()
