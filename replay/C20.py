"""Replay of C20 counterexamples on the real ValueMapping / _integerValue_to_int."""
import re
from replay.common import rebuild, main
from pywbem import ValueMapping, CIMProperty, CIMMethod, CIMQualifier, ModelError
from pywbem._utils import _integerValue_to_int


def ref_int(s):
    if re.fullmatch(r'[+-]?[01]+[bB]', s):
        return int(s[:-1], 2)
    if re.fullmatch(r'[+-]?0[0-7]+', s):
        return int(s, 8)
    if re.fullmatch(r'[+-]?([1-9][0-9]*|0)', s):
        return int(s, 10)
    if re.fullmatch(r'[+-]?0[xX][0-9a-fA-F]+', s):
        return int(s, 16)
    return None


def integer_value(p):
    s = rebuild(p['inputs'])['value_str']
    try:
        got = _integerValue_to_int(s)
    except Exception as e:
        return {'confirmed': True, 'observed': f'{type(e).__name__}: {e}', 'input': s}
    exp = ref_int(s)
    return {'confirmed': got != exp, 'observed': got, 'expected': exp, 'input': s}


def mk_vm(d):
    vm = ValueMapping()
    vm._b2v_single_dict = dict((k, v) for k, v in (d.get('_b2v_single_dict') or {}).items())
    vm._b2v_range_tuple_list = [tuple(t) for t in d.get('_b2v_range_tuple_list') or []]
    vm._b2v_unclaimed = d.get('_b2v_unclaimed')
    vm._v2b_dict = dict(d.get('_v2b_dict') or {})
    vm._element_obj = CIMProperty('P', None, type='uint8')
    return vm


def tovalues_single(p):
    inp = rebuild(p['inputs'])
    vm = mk_vm(inp['self'])
    v = inp['element_value']
    exp = None
    kind = 'ValueError'
    if isinstance(v, int) and not isinstance(v, bool) or isinstance(v, bool):
        if v in vm._b2v_single_dict:
            exp, kind = vm._b2v_single_dict[v], 'value'
        else:
            for lo, hi, s in vm._b2v_range_tuple_list:
                if lo <= v <= hi:
                    exp, kind = s, 'value'
                    break
            else:
                if vm._b2v_unclaimed is not None:
                    exp, kind = vm._b2v_unclaimed, 'value'
    else:
        kind = 'TypeError'
    try:
        got = vm._tovalues_single(v)
        ok = kind == 'value' and got == exp
        return {'confirmed': not ok, 'observed': got, 'expected': exp if kind == 'value' else kind}
    except (ValueError, TypeError) as e:
        return {'confirmed': type(e).__name__ != kind, 'observed': type(e).__name__, 'expected': exp if kind == 'value' else kind}
    except Exception as e:
        return {'confirmed': True, 'observed': f'{type(e).__name__}: {e}'}


def tobinary(p):
    inp = rebuild(p['inputs'])
    vm = mk_vm(inp['self'])
    s = inp['values_str']
    try:
        got = vm.tobinary(s)
        ok = isinstance(s, str) and s in vm._v2b_dict and got == vm._v2b_dict[s]
        return {'confirmed': not ok, 'observed': repr(got)}
    except TypeError:
        return {'confirmed': isinstance(s, str), 'observed': 'TypeError'}
    except ValueError:
        return {'confirmed': isinstance(s, str) and s in vm._v2b_dict, 'observed': 'ValueError'}
    except Exception as e:
        return {'confirmed': True, 'observed': f'{type(e).__name__}: {e}'}


def create_for_element(p):
    inp = rebuild(p['inputs'])
    el = inp['element_obj']
    quals = []
    q = el.get('_qualifiers') or {}
    for name in ('Values', 'ValueMap'):
        if q.get(name) is not None:
            quals.append(CIMQualifier(name, list(q[name].get('_value') or []), type='string'))
    try:
        if el.get('$class') == 'CIMMethod':
            obj = CIMMethod('M', return_type=el.get('_return_type'), qualifiers=quals)
        else:
            obj = CIMProperty('P', None, type=el.get('_type'), qualifiers=quals)
    except Exception as e:
        return {'confirmed': False, 'note': f'element cannot be built: {e}'}
    try:
        vm = ValueMapping._create_for_element(obj, None, inp.get('namespace') or 'ns', inp.get('classname') or 'C',
                                              propname=inp.get('propname'), methodname=inp.get('methodname'),
                                              parametername=inp.get('parametername'),
                                              values_default=inp.get('values_default'))
    except (ModelError, ValueError) as e:
        return {'confirmed': False, 'observed': type(e).__name__}
    except Exception as e:
        return {'confirmed': True, 'observed': f'{type(e).__name__}: {e}'}
    items = list(vm.items())
    return {'confirmed': False, 'observed': f'{len(items)} items'}


def to_int(p):
    inp = rebuild(p['inputs'])
    s = inp['val_str']
    vm = mk_vm({})
    exp = ref_int(s)
    try:
        got = vm._to_int(s)
        return {'confirmed': got != exp, 'observed': got, 'expected': exp, 'input': s}
    except ModelError:
        return {'confirmed': exp is not None, 'observed': 'ModelError', 'expected': exp, 'input': s}
    except Exception as e:
        return {'confirmed': True, 'observed': f'{type(e).__name__}: {e}'}


if __name__ == '__main__':
    main({'_integerValue_to_int': integer_value, 'ValueMapping._tovalues_single': tovalues_single,
          'ValueMapping._tovalues_single[non-integer]': tovalues_single,
          'ValueMapping.tobinary': tobinary, 'ValueMapping._to_int': to_int,
          'ValueMapping._create_for_element[property/parameter]': create_for_element,
          'ValueMapping._create_for_element[method]': create_for_element})
