"""Replay of C04 counterexamples: what _methodcall marshals for the target, compared with what the caller named."""
import re
from replay.common import main


def methodcall(p):
    import pywbem
    import pywbem._cim_operations as ops
    inp = p['inputs']
    dflt = (inp.get('self') or {}).get('default_namespace') or 'root/dflt'
    raw = inp.get('objectname')
    if isinstance(raw, dict):
        f = raw.get('fields') or {}
        ns = f.get('namespace')
        cn = f.get('classname') or 'C'
        on = pywbem.CIMInstanceName(cn, {'k': 'v'}, namespace=ns or None) if raw.get('cls') == 'CIMInstanceName' \
            else pywbem.CIMClassName(cn, namespace=ns or None)
        if f.get('host'):
            on.host = f['host']
        want_ns, want_cn = on.namespace or dflt, on.classname
    else:
        on = raw or 'C'
        want_ns, want_cn = dflt, on
    conn = pywbem.WBEMConnection('http://127.0.0.1:1', default_namespace=dflt, timeout=1)
    want_ns = want_ns.strip('/')
    sent = {}
    real = ops.wbem_request

    def capture(conn_, body, headers):
        sent['body'] = body if isinstance(body, str) else body.decode('utf-8')
        sent['headers'] = dict(headers)
        raise pywbem.ConnectionError('captured')
    ops.wbem_request = capture
    try:
        conn._methodcall(inp.get('methodname') or 'M', on)
        return {'confirmed': None, 'observed': 'returned'}
    except pywbem.ConnectionError:
        body = sent.get('body', '')
        mc = body[body.find('<METHODCALL'):]
        end = [i for i in (mc.find('</LOCALCLASSPATH>'), mc.find('</LOCALINSTANCEPATH>')) if i >= 0]
        path = mc[:min(end)] if end else mc
        got_ns = '/'.join(re.findall(r'<NAMESPACE NAME="([^"]*)"', path))
        m = re.search(r'<(?:CLASSNAME|INSTANCENAME) (?:CLASS)?NAME="([^"]*)"', path)
        got_cn = m.group(1) if m else None
        problems = []
        if got_ns != want_ns:
            problems.append(f'METHODCALL names namespace {got_ns!r}, the caller named {want_ns!r}')
        if got_cn != want_cn:
            problems.append(f'METHODCALL names class {got_cn!r}, the caller named {want_cn!r}')
        return {'confirmed': bool(problems), 'problems': problems, 'objectname': repr(on), 'default_namespace': dflt}
    finally:
        ops.wbem_request = real


if __name__ == '__main__':
    main({'WBEMConnection._methodcall[marshalled target]': methodcall})
