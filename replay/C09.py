"""Replay of C09 counterexamples on the real MOF compiler pieces."""
from replay.common import main, rebuild


def fix_string_value(p):
    from pywbem._mof_compiler import _fixStringValue
    from pywbem import MOFParseError
    s = rebuild(p['inputs'])['s']
    try:
        r = _fixStringValue(s, None)
        return {'confirmed': False, 'observed': repr(r), 'input': s}
    except MOFParseError as e:
        return {'confirmed': False, 'observed': 'MOFParseError', 'input': s}
    except AttributeError as e:
        # MOFParseError construction from a None production (replay artefact), not a finding
        return {'confirmed': False, 'observed': f'AttributeError while building MOFParseError: {e}', 'input': s}
    except Exception as e:
        return {'confirmed': True, 'observed': f'{type(e).__name__}: {e}', 'input': s}


if __name__ == '__main__':
    main({'_fixStringValue': fix_string_value})
