"""Replay for C18: two subscription managers whose ids differ only by a regex metacharacter."""
import sys
from replay.common import main


def regex_ids(p):
    sys.path.insert(0, '.')
    from tests.unittest.utils.wbemserver_mock import WbemServerMock
    from tests.unittest.pywbem.test_subscriptionmanager import SUBSCRIPTION_WBEM_SERVER_MOCK_DICT
    from pywbem import WBEMSubscriptionManager, WBEMServer
    mock = WbemServerMock(interop_ns='interop', server_mock_data=SUBSCRIPTION_WBEM_SERVER_MOCK_DICT)
    srv1 = mock.wbem_server
    problems = []
    m_abc = WBEMSubscriptionManager('abc')
    sid = m_abc.add_server(srv1)
    f = m_abc.add_filter(sid, 'root/cimv2', 'SELECT * FROM CIM_AlertIndication', 'WQL', owned=True, filter_id='f1')
    m_adc = WBEMSubscriptionManager('a.c')
    sid2 = m_adc.add_server(WBEMServer(srv1.conn))
    owned = [i['Name'] for i in m_adc.get_owned_filters(sid2)]
    if any(n.startswith('pywbemfilter:abc:') for n in owned):
        problems.append(f"manager 'a.c' lists {owned} as owned (created by manager 'abc')")
    m_adc.remove_server(sid2)
    left = [i['Name'] for i in srv1.conn.EnumerateInstances('CIM_IndicationFilter', namespace='interop')]
    if 'pywbemfilter:abc:f1' not in left:
        problems.append("remove_server() of manager 'a.c' deleted the filter of manager 'abc'")
    return {'confirmed': bool(problems), 'problems': problems}


if __name__ == '__main__':
    main({'regex-ids': regex_ids})
