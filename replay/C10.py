"""Replay of C10 counterexamples on the real InMemoryObjectStore."""
from replay.common import main
from pywbem import CIMInstance, CIMInstanceName, Uint32
from pywbem_mock._inmemoryrepository import InMemoryObjectStore


def mk(p):
    """Real store/arguments for the solver's refs: every distinct ref is a distinct instance."""
    inp = p['inputs']
    refs = {}

    def inst(r):
        key = r['$ref']
        if key not in refs:
            n = len(refs)
            refs[key] = CIMInstance('C', properties={'Id': Uint32(n), 'P': f'v{n}'},
                                    path=CIMInstanceName('C', keybindings={'Id': Uint32(n)}, namespace='ns'))
        return refs[key]

    names = {}

    def name(r):
        key = r['$ref']
        if key not in names:
            names[key] = CIMInstanceName('C', keybindings={'Id': Uint32(100 + len(names))}, namespace='ns')
        return names[key]

    store = InMemoryObjectStore(CIMInstance)
    nm = name(inp['name'])
    # whether the name is present follows from the path outcome: replay both ways
    return store, nm, inst, inp


def isolation(p):
    store, nm, inst, inp = mk(p)
    fn = p['function'].split('.')[-1]
    problems = []
    obj = inst(inp['cim_object']) if 'cim_object' in inp else None
    if fn == 'update':
        store.create(nm, CIMInstance('C', properties={'Id': Uint32(999), 'P': 'old'}))
        store.update(nm, obj)
        obj['P'] = 'mutated-after-update'
        if store.get(nm)['P'] == 'mutated-after-update':
            problems.append('mutating the object passed to update() changes what the store returns')
    elif fn == 'create':
        store.create(nm, obj)
        obj['P'] = 'mutated-after-create'
        if store.get(nm)['P'] == 'mutated-after-create':
            problems.append('mutating the object passed to create() changes what the store returns')
    elif fn == 'get':
        store.create(nm, CIMInstance('C', properties={'Id': Uint32(1), 'P': 'stored'}))
        got = store.get(nm, copy=True)
        got['P'] = 'mutated-after-get'
        if store.get(nm)['P'] == 'mutated-after-get':
            problems.append('mutating the object returned by get() changes the store')
    return {'confirmed': bool(problems), 'problems': problems}


if __name__ == '__main__':
    main({'InMemoryObjectStore.update': isolation, 'InMemoryObjectStore.create': isolation,
          'InMemoryObjectStore.get': isolation})
