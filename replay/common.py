"""Helpers for replaying solver counterexamples against the real code (run under /venv/bin/python)."""
import json
import sys


class Token:
    """Stand-in for an opaque object of the model (identity = the solver's Ref value)."""
    def __init__(self, name):
        self.name = name

    def __repr__(self):
        return f'<obj {self.name}>'


def rebuild(v, refs=None):
    refs = {} if refs is None else refs
    if isinstance(v, dict):
        if '$tuple' in v:
            return tuple(rebuild(x, refs) for x in v['$tuple'])
        if '$ref' in v:
            return refs.setdefault(v['$ref'], Token(v['$ref']))
        if '$map' in v:
            return {rebuild(k, refs) if not isinstance(k, list) else tuple(k): rebuild(x, refs) for k, x in v['$map']}
        if '$float' in v:
            return 0.0
        return {k: rebuild(x, refs) for k, x in v.items()}
    if isinstance(v, list):
        return [rebuild(x, refs) for x in v]
    return v


def main(handlers):
    payload = json.loads(sys.stdin.read())
    fn = payload.get('function', '')
    for key, h in handlers.items():
        if fn.endswith(key):
            try:
                res = h(payload)
            except Exception as e:      # harness failure: not a confirmation
                import traceback
                res = {'confirmed': None, 'error': traceback.format_exc()[-1500:]}
            print(json.dumps(res, default=repr))
            return
    print(json.dumps({'confirmed': None, 'error': f'no replay handler for {fn}'}))
