"""Replay of C05 counterexamples: build two real CIM objects slot by slot and compare ==/hash with the
slot-wise specification."""
from replay.common import main
import pywbem
from pywbem import NocaseDict

NAME_SLOTS = {'_classname', '_host', '_namespace', '_name', '_class_origin', '_reference_class', '_superclass'}
DICT_SLOTS = {'_keybindings', '_properties', '_qualifiers', '_methods', '_parameters', '_scopes'}


def build(d):
    cls = getattr(pywbem, d['$class'])
    o = cls.__new__(cls)
    for k, v in d.items():
        if k.startswith('$'):
            continue
        if k in DICT_SLOTS:
            v = NocaseDict([('k', v.get('absval', v['$ref']))]) if isinstance(v, dict) else NocaseDict()
        elif isinstance(v, dict) and '$ref' in v:
            v = 'obj:' + str(v.get('absval', v['$ref']))
        setattr(o, k, v)
    return o


def spec_eq(a, b, slots):
    for s in slots:
        x, y = getattr(a, s), getattr(b, s)
        if s in NAME_SLOTS:
            if (x is None) != (y is None) or (x is not None and x.lower() != y.lower()):
                return False
        elif x != y:
            return False
    return True


def eq(p):
    inp = p['inputs']
    a, b = build(inp['self']), build(inp['other'])
    slots = [k for k in inp['self'] if not k.startswith('$')]
    want = spec_eq(a, b, slots)
    try:
        got = (a == b)
    except Exception as e:
        return {'confirmed': True, 'observed': f'{type(e).__name__}: {e}'}
    problems = []
    if got != want:
        problems.append(f'== gives {got}, slot-wise specification gives {want}')
    if want and hash(a) != hash(b):
        problems.append('equal objects hash differently')
    if (a != b) == got:
        problems.append('!= is not the negation of ==')
    return {'confirmed': bool(problems), 'problems': problems}


def names(p):
    from pywbem._utils import _eq_name, _hash_name
    inp = p['inputs']
    a, b = inp.get('name1'), inp.get('name2')
    want = (a is None and b is None) or (a is not None and b is not None and a.lower() == b.lower())
    got = _eq_name(a, b)
    problems = []
    if bool(got) != bool(want):
        problems.append(f'_eq_name({a!r}, {b!r}) = {got}, specification {want}')
    if got and _hash_name(a) != _hash_name(b):
        problems.append('equal names hash differently')
    return {'confirmed': bool(problems), 'problems': problems}


if __name__ == '__main__':
    main({'.__eq__': eq, '.__hash__': eq, '_eq_name': names, '.__ne__': eq})
