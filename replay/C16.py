"""Replay of the C16 ownership obligation on the real listener: one indication, a slow callback, stop()."""
import socket
import threading
import time
from replay.common import main


def free_port():
    s = socket.socket()
    s.bind(('127.0.0.1', 0))
    p = s.getsockname()[1]
    s.close()
    return p


BODY = b'''<?xml version="1.0" encoding="utf-8" ?>
<CIM CIMVERSION="2.0" DTDVERSION="2.4"><MESSAGE ID="42" PROTOCOLVERSION="1.4"><SIMPLEEXPREQ>
<EXPMETHODCALL NAME="ExportIndication"><EXPPARAMVALUE NAME="NewIndication">
<INSTANCE CLASSNAME="CIM_AlertIndication"><PROPERTY NAME="Seq" TYPE="uint32"><VALUE>1</VALUE></PROPERTY></INSTANCE>
</EXPPARAMVALUE></EXPMETHODCALL></SIMPLEEXPREQ></MESSAGE></CIM>'''


def stop_while_callback_runs(p):
    import http.client
    from pywbem import WBEMListener
    port = free_port()
    lis = WBEMListener('127.0.0.1', http_port=port)
    delivered = []

    def cb(ind, host):
        time.sleep(0.6)
        delivered.append(ind)
    lis.add_callback(cb)
    lis.start()
    problems = []
    try:
        c = http.client.HTTPConnection('127.0.0.1', port, timeout=5)
        c.request('POST', '/', BODY, {'Content-Type': 'application/xml; charset=utf-8', 'CIMExport': 'MethodRequest',
                                      'CIMExportMethod': 'ExportIndication'})
        r = c.getresponse()
        r.read()
        c.close()
        if r.status != 200:
            return {'confirmed': None, 'error': f'indication not accepted: {r.status}'}
        try:
            lis.stop()
        except Exception as e:      # pylint: disable=broad-except
            problems.append(f'stop() raised {type(e).__name__}: {e}')
        if len(delivered) != 1:
            problems.append(f'acknowledged indication delivered {len(delivered)} times')
    finally:
        try:
            lis.stop()
        except Exception:
            pass
    return {'confirmed': bool(problems), 'problems': problems}


if __name__ == '__main__':
    main({'WBEMListener._stop_indication_delivery': stop_while_callback_runs})
