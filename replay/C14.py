"""Replay of C14 counterexamples on the real MainProvider (current working tree)."""
import copy
from replay.common import rebuild, main
from pywbem import CIMError, CIM_ERR_INVALID_ENUMERATION_CONTEXT, CIM_ERR_INVALID_NAMESPACE
from pywbem_mock import FakedWBEMConnection


def provider(selfd, extra_ns=()):
    conn = FakedWBEMConnection()
    for ns in extra_ns:
        try:
            conn.add_namespace(ns)
        except Exception:
            pass
    mp = conn._mainprovider
    table = selfd.get('enumeration_contexts') or {}
    mp.enumeration_contexts = {k: dict(v) for k, v in table.items()}
    for v in mp.enumeration_contexts.values():
        v['data'] = list(v['data'])
        # the namespace string is unconstrained in the solver model: use one that
        # exists, so the real validate_namespace() takes the modelled normal outcome
        if v.get('namespace') not in conn.namespaces:
            v['namespace'] = conn.default_namespace
    mp.disable_pull_operations = bool(selfd.get('disable_pull_operations'))
    return conn, mp


def pull_response(p):
    inp = rebuild(p['inputs'])
    ctxid = inp['EnumerationContext']
    table = inp['self'].get('enumeration_contexts') or {}
    nss = [v['namespace'] for v in table.values() if v.get('namespace')]
    conn, mp = provider(inp['self'], nss)
    before = {k: list(v['data']) for k, v in mp.enumeration_contexts.items()}
    moc = inp['MaxObjectCount']
    problems = []
    try:
        rtn, eos, cid = mp._pull_response(inp['req_type'], ctxid, moc)
    except CIMError as e:
        after = {k: list(v['data']) for k, v in mp.enumeration_contexts.items()}
        if after != before:
            problems.append('refused pull changed the context table')
        if e.status_code not in (CIM_ERR_INVALID_ENUMERATION_CONTEXT, CIM_ERR_INVALID_NAMESPACE):
            problems.append(f'status code {e.status_code}')
        return {'confirmed': bool(problems), 'observed': f'CIMError {e.status_code}', 'problems': problems}
    old = before[ctxid]
    rest = [] if eos == 'TRUE' else mp.enumeration_contexts[ctxid]['data']
    if moc is not None and len(rtn) > moc:
        problems.append(f'{len(rtn)} objects returned for MaxObjectCount={moc}')
    if list(rtn) + list(rest) != old:
        problems.append('delivered + remaining != previous remaining')
    if moc is not None and moc > 0 and not (len(rtn) >= 1 or eos == 'TRUE'):
        problems.append('no progress')
    if (eos == 'TRUE') != (ctxid not in mp.enumeration_contexts):
        problems.append('eos does not agree with context removal')
    if eos == 'FALSE' and len(mp.enumeration_contexts[ctxid]['data']) < 1:
        problems.append('empty context left open')
    for k, v in before.items():
        if k != ctxid and (k not in mp.enumeration_contexts or mp.enumeration_contexts[k]['data'] != v):
            problems.append(f'other context {k!r} changed')
    return {'confirmed': bool(problems), 'observed': {'returned': len(rtn), 'eos': eos, 'context': cid},
            'problems': problems}


def open_response(p):
    inp = rebuild(p['inputs'])
    conn, mp = provider(inp['self'])
    objs = list(inp['objects'])
    before = {k: list(v['data']) for k, v in mp.enumeration_contexts.items()}
    moc = inp['MaxObjectCount']
    problems = []
    rtn, eos, cid = mp._open_response(inp['namespace'], list(objs), inp['pull_type'], inp['OperationTimeout'],
                                      moc, inp['ContinueOnError'])
    rest = [] if eos == 'TRUE' else mp.enumeration_contexts[cid]['data']
    if moc is not None and len(rtn) > moc:
        problems.append(f'{len(rtn)} objects returned for MaxObjectCount={moc}')
    if list(rtn) + list(rest) != objs:
        problems.append('delivered + remaining != result')
    if eos == 'TRUE' and cid != '':
        problems.append('context id with eos')
    if eos == 'FALSE' and (cid not in mp.enumeration_contexts or not mp.enumeration_contexts[cid]['data']):
        problems.append('open context missing or empty')
    for k, v in before.items():
        if k != cid and (k not in mp.enumeration_contexts or mp.enumeration_contexts[k]['data'] != v):
            problems.append(f'other context {k!r} changed')
    return {'confirmed': bool(problems), 'observed': {'returned': len(rtn), 'eos': eos}, 'problems': problems}


def close_enumeration(p):
    inp = rebuild(p['inputs'])
    conn, mp = provider(inp['self'])
    ctxid = inp['EnumerationContext']
    before = dict(mp.enumeration_contexts)
    problems = []
    try:
        mp.CloseEnumeration(ctxid)
        if ctxid in mp.enumeration_contexts:
            problems.append('context still open after CloseEnumeration')
        if ctxid not in before:
            problems.append('closing an unknown context succeeded')
    except CIMError as e:
        if set(mp.enumeration_contexts) != set(before):
            problems.append('failed close changed the table')
    for k in before:
        if k != ctxid and k not in mp.enumeration_contexts:
            problems.append(f'other context {k!r} removed')
    return {'confirmed': bool(problems), 'problems': problems}


def validate_moc(p):
    from pywbem import _cim_operations as ops
    inp = rebuild(p['inputs'])
    m = inp['MaxObjectCount']
    fn = ops._validate_MaxObjectCount_Iter if p['function'].endswith('_Iter') else ops._validate_MaxObjectCount_OpenPull
    it = p['function'].endswith('_Iter')
    problems = []
    try:
        fn(m)
        ok = (isinstance(m, int) and m > 0) if it else (m is None or (isinstance(m, int) and m >= 0))
        if not ok:
            problems.append(f'accepted {m!r}')
    except (TypeError, ValueError) as e:
        ok = (isinstance(m, int) and m > 0) if it else (m is None or (isinstance(m, int) and m >= 0))
        if ok:
            problems.append(f'rejected valid {m!r}')
    except Exception as e:
        problems.append(f'unexpected {type(e).__name__}')
    return {'confirmed': bool(problems), 'problems': problems}


if __name__ == '__main__':
    main({'MainProvider._pull_response': pull_response, 'MainProvider._open_response': open_response,
          'MainProvider.CloseEnumeration': close_enumeration,
          '_validate_MaxObjectCount_OpenPull': validate_moc, '_validate_MaxObjectCount_Iter': validate_moc})
