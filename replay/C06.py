"""Replay of C06 counterexamples: cimvalue(value, type) on the solver's value."""
from replay.common import main

NAMES = {'uint8': 'Uint8', 'uint16': 'Uint16', 'uint32': 'Uint32', 'uint64': 'Uint64',
         'sint8': 'Sint8', 'sint16': 'Sint16', 'sint32': 'Sint32', 'sint64': 'Sint64'}


def cimvalue(p):
    import pywbem
    inp = p['inputs']
    tname = inp['type']
    raw = inp['value']
    if isinstance(raw, dict):
        n = int(raw.get('intval', '0'))
        try:
            value = getattr(pywbem, raw['cls'])(n)
        except ValueError:
            return {'confirmed': None, 'error': f'the model value {n} is not representable in {raw["cls"]}'}
    else:
        value = raw
    want = getattr(pywbem, NAMES[tname])
    try:
        res = pywbem.cimvalue(value, tname)
    except ValueError as e:
        lo, hi = want.minvalue, want.maxvalue
        bad = lo <= int(value) <= hi
        return {'confirmed': bad, 'observed': f'ValueError: {e}'[:200], 'input': repr(value)}
    problems = []
    if not isinstance(res, want):
        problems.append(f'cimvalue({value!r}, {tname!r}) returned a {type(res).__name__}, not a {want.__name__}')
    elif int(res) != int(value):
        problems.append(f'cimvalue({value!r}, {tname!r}) returned {res!r}')
    elif not want.minvalue <= int(res) <= want.maxvalue:
        problems.append(f'{res!r} outside the range of {tname}')
    return {'confirmed': bool(problems), 'problems': problems, 'input': repr(value)}


if __name__ == '__main__':
    main({"cimvalue[type '%s']" % t: cimvalue for t in NAMES})
