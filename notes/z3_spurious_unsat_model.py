import z3,time,itertools
s=z3.Solver(); s.from_file('/verif/notes/z3_spurious_unsat.smt2')
a=list(s.assertions())
decls={}; fdecl={}
def walk(e,seen=set()):
    if e.get_id() in seen: return
    seen.add(e.get_id())
    if z3.is_app(e) and e.decl().kind()==z3.Z3_OP_UNINTERPRETED:
        if e.num_args()==0: decls[e.decl().name()]=e
        else: fdecl[e.decl().name()]=e.decl()
    if z3.is_quantifier(e): walk(e.body(),seen)
    else:
        for c in e.children(): walk(c,seen)
for h in a: walk(h)
def has_q(e):
    if z3.is_quantifier(e): return True
    return any(has_q(c) for c in e.children()) if z3.is_app(e) else False
def expand(e, vals):
    if z3.is_quantifier(e):
        n=e.num_vars(); out=[]
        if e.var_sort(0)==z3.StringSort():
            return z3.BoolVal(True)       # handled by hand (val33 == val22)
        for combo in itertools.product(vals, repeat=n):
            body=z3.substitute_vars(e.body(), *reversed([z3.IntVal(c) for c in combo]))
            out.append(expand(body, vals))
        return z3.And(*out)
    if z3.is_app(e) and has_q(e):
        return e.decl()(*[expand(c, vals) for c in e.children()])
    return e
s3=z3.Solver()
for h in a: s3.add(expand(h,[0,1]))
g=decls['g_refns!9']; i=decls['_i!26']
ns=fdecl['fld_CIMInstanceName_namespace'](decls['InstanceName!6'])
s3.add(g==z3.Unit(z3.StringVal('a')), i==0, ns==z3.StringVal('b'), decls['hv_val!33']==decls['hv_val!22'])
print(s3.check())
